"""C03 - termination, stop criterion and trial budget."""
import math

import numpy as np

from vlib import scenario, record, agp_model

LEVEL = "exploration"
RULE = ("(a) full grid itersLimit in 1..5 x eps in {3,1.5,1,0.9,0.5,0.1,0.01} x N in 1..5 x 4 objectives; (b) eps set exactly "
        "equal to attainable Hoelder lengths pow(2^-j,1/N) (and one ulp either side); (c) seeded random scenarios over all objective "
        "families with refinement on and off and pre-batched iterations. The stop point, the evaluation count and "
        "the reported accuracy are recomputed from the authenticated trial log. Non-trivial: the run made >= 2 trials; "
        "distinct = distinct (N, eps, itersLimit, family, trial count, stop reason).")
ASSUMPTIONS = ["Hoelder length of an interval is pow(x_r-x_l, 1/N) evaluated by libm pow on the same doubles the solver used",
               "eps > 1: stopping after one or after two trials are both accepted (the statement is silent on whether seeding [0,1] counts)",
               "single-trial runs: reported accuracy inf or 1 both accepted"]
GRID_OBJ = [{"fam": "const", "v": 1.0},
            {"fam": "linear", "w": [1.0, -2.0, 0.5, 3.0, -1.0], "b": 0.3},
            {"fam": "cones", "a": [[0.3, 0.6, 0.2, 0.8, 0.4]], "c": [-1.0], "K": [4.0]},
            {"fam": "noise", "salt": 7, "scale": 3.0}]


def _fit(obj, N):
    o = dict(obj)
    if o["fam"] == "linear":
        o["w"] = o["w"][:N]
    if o["fam"] == "cones":
        o["a"] = [o["a"][0][:N]]
    return o


def cases(tier, seed):
    out = []
    for N in range(1, 6):
        for iters in (1, 2, 3, 4, 5):
            for eps in (3.0, 1.5, 1.0, 0.9, 0.5, 0.1, 0.01):
                for oi, obj in enumerate(GRID_OBJ):
                    out.append({"N": N, "lower": [0.0] * N, "upper": [1.0] * N, "box": "unit", "obj": _fit(obj, N), "r": 2.5,
                                "eps": eps, "iters": iters, "m": 10 if N * 10 <= 50 else 50 // N, "refine": False, "grp": "grid"})
    # exact-equality cases
    for N in range(1, 6):
        jmax = 8 if tier == "quick" else 10
        for j in range(1, jmax + 1):
            e0 = math.pow(2.0 ** (-j), 1.0 / N)
            for de in (0, 1, -1):
                eps = e0 if de == 0 else (math.nextafter(e0, 2.0) if de > 0 else math.nextafter(e0, 0.0))
                for oi, obj in enumerate(GRID_OBJ[:3] if tier == "thorough" else GRID_OBJ[:2]):
                    if de != 0 and oi > 0:
                        continue
                    m = 10 if N * 10 <= 50 else 50 // N
                    if N >= 2 and eps < 2.0 ** (-m):
                        continue
                    out.append({"N": N, "lower": [0.0] * N, "upper": [1.0] * N, "box": "unit", "obj": _fit(obj, N), "r": 2.0,
                                "eps": eps, "iters": 5000, "m": m, "refine": False, "grp": "equal", "j": j, "de": de})
    n = 320 if tier == "quick" else 4000
    for i in range(n):
        rng = scenario.rng_for(seed, "C03", i)
        scn = scenario.gen_scenario(rng, max_iters=500 if tier == "quick" else 3000)
        scn["grp"] = "random"
        u = rng.random()
        if u < 0.2 and scn["iters"] > 3:
            b = int(rng.integers(1, min(scn["iters"], 40)))
            scn["pattern"] = [["iter", b], ["solve"]]
        out.append(scn)
    return out


def ulps(a, b):
    if a == b:
        return 0.0
    if not (math.isfinite(a) and math.isfinite(b)):
        return float("inf")
    return abs(a - b) / np.spacing(max(abs(a), abs(b)))


def run_case(scn):
    t = record.run_solver(scn, listener=True)
    if t.fp_exhausted:
        return {"violations": [], "obs": {"fp_domain_exhausted": 1}, "skip": "fp-domain-exhausted"}
    viol = []
    obs = {"runs": 1}
    N, eps, lim = scn["N"], scn["eps"], scn["iters"]
    if t.aborted or t.budget_violation:
        viol.append({"mech": "budget-runaway", "msg": "objective called more than itersLimit+8 times in the global phase",
                     "calls": t.problem.ng})
    if t.swallowed:
        viol.append({"mech": "solve-internal-exception", "msg": "Solve printed 'Exception was thrown' on a fault-free objective",
                     "stdout": t.stdout[-300:]})
    if not t.solutions:
        viol.append({"mech": "solve-did-not-return", "msg": "Solve returned nothing"})
        return {"violations": viol, "obs": obs}
    sol = t.solutions[-1]
    glog = [e for e in t.log if e["ph"] == "g"]
    T = len(glog)
    B = sum(s[1] for s in scn.get("pattern", []) if s[0] == "iter")
    if sol.numberOfGlobalTrials != T:
        viol.append({"mech": "trial-count-mismatch", "reported": sol.numberOfGlobalTrials, "evaluations": T})
    if T > max(lim, B):
        viol.append({"mech": "budget-exceeded", "evaluations": T, "itersLimit": lim, "prebatched": B})
    xs, zs, problems = record.trial_sequence(t)
    for p in problems[:3]:
        viol.append({"mech": "trial-authentication", "msg": p})
    a = agp_model.audit(xs, zs, N, scn["r"])
    lens = a["lengths"]
    if len(lens) != T or any(v["kind"] in ("duplicate-coordinate", "outside-unit-interval") for v in a["violations"]):
        viol.append({"mech": "trial-log-unusable", "msg": "trial sequence could not be replayed by the model", "detail": a["violations"][:2]})
        return {"violations": viol, "obs": obs}

    def cond(k, strict_ulp):
        """stop criterion after k trials; returns True / False / None (undecidable within 2 ulp)."""
        if k >= lim:
            return True
        sub = [L for L in lens[1:k] if L is not None]
        if not sub:
            return None if eps > 1.0 else False
        mn = min(sub)
        if mn != eps and ulps(mn, eps) <= strict_ulp:
            return None
        return mn < eps
    # never later: no k in [max(B,1), T) may already satisfy the criterion
    start = max(B, 1)
    reason = None
    for k in range(start, T):
        c = cond(k, 2)
        if c is True:
            viol.append({"mech": "stopped-late", "msg": "stop criterion already held after %d trials but %d were made" % (k, T),
                         "eps": eps, "itersLimit": lim, "min_len": min([L for L in lens[1:k] if L is not None] or [float('inf')])})
            break
    # never earlier: the criterion must hold at T
    c = cond(T, 2)
    if c is False:
        viol.append({"mech": "stopped-early", "msg": "Solve stopped after %d trials but the stop criterion does not hold" % T,
                     "eps": eps, "itersLimit": lim, "min_len": min([L for L in lens[1:T] if L is not None] or [float('inf')])})
    sub = [L for L in lens[1:T] if L is not None]
    if T >= lim and not (sub and min(sub) < eps):
        reason = "budget"
    else:
        reason = "accuracy"
    # reported accuracy
    acc = float(sol.solutionAccuracy)
    if sub:
        exp = min(sub)
        if ulps(acc, exp) > 4:
            viol.append({"mech": "accuracy-mismatch", "reported": acc, "expected": exp, "T": T})
        obs["accuracy_checked"] = 1
    else:
        if not (acc == float("inf") or acc == 1.0):
            viol.append({"mech": "accuracy-mismatch", "reported": acc, "expected": "inf (or 1) with a single trial"})
        obs["single_trial_runs"] = 1
    if any(L == eps for L in sub):
        obs["equality_hit"] = 1          # an interval of length exactly eps was subdivided and the run went on
    if scn.get("refine"):
        nl = len([e for e in t.log if e["ph"] == "l"])
        obs["refine_runs"] = 1
        obs["local_evals"] = nl
    obs["stop_" + reason] = 1
    obs["trials"] = T
    obs["grp_" + scn.get("grp", "x")] = 1
    key = "%d|%r|%d|%s|%d|%s" % (N, eps, lim, scn["obj"]["fam"], T, reason)
    return {"violations": viol, "obs": obs, "nontrivial": T >= 2, "key": key if T >= 2 else None,
            "sample": dict(scenario.short(scn), trials=T, reason=reason, accuracy=acc, grp=scn.get("grp"))}


def finalize(obs, tier, stats):
    miss = [k for k in ("stop_budget", "stop_accuracy", "equality_hit", "single_trial_runs", "refine_runs", "accuracy_checked") if not obs.get(k)]
    if miss:
        return "never observed: %s" % miss, {}
    if obs.get("equality_hit", 0) < 10:
        return "fewer than 10 runs subdivided an interval of length exactly eps", {}
    return None, {}
