"""C03 - termination, stop criterion and trial budget."""
import math

import numpy as np

from vlib import ambient, scenario, record, agp_model, stoprule

LEVEL = "exploration"
RULE = ("(a) full grid itersLimit in 1..5 x eps in {3,1.5,1,0.9,0.5,0.1,0.01} x N in 1..5 x 4 objectives; (b) eps set exactly "
        "equal to attainable Hoelder lengths pow(2^-j,1/N) (and one ulp either side); (c) seeded random scenarios over all objective "
        "families with refinement on and off and pre-batched iterations; (d) multi-step use: Solve, the user raises (or lowers) parameters.itersLimit, Solve again; local refinement (DoLocalRefinement or refineSolution) before a Solve that still has budget. The stop point, the evaluation count and "
        "the reported accuracy are recomputed from the authenticated trial log. Non-trivial: the run made >= 2 trials; "
        "distinct = distinct (N, eps, itersLimit, family, trial count, stop reason)."
       " Parameter edits between calls go through the caller's own SolverParameters object every other time.")
ASSUMPTIONS = ["Hoelder length of an interval is pow(x_r-x_l, 1/N) evaluated by libm pow on the same doubles the solver used",
               "eps > 1: stopping after one or after two trials are both accepted (the statement is silent on whether seeding [0,1] counts)",
               "single-trial runs: reported accuracy inf or 1 both accepted"]
GRID_OBJ = [{"fam": "const", "v": 1.0},
            {"fam": "linear", "w": [1.0, -2.0, 0.5, 3.0, -1.0], "b": 0.3},
            {"fam": "cones", "a": [[0.3, 0.6, 0.2, 0.8, 0.4]], "c": [-1.0], "K": [4.0]},
            {"fam": "noise", "salt": 7, "scale": 3.0}]


def _fit(obj, N):
    o = dict(obj)
    if o["fam"] == "linear":
        o["w"] = o["w"][:N]
    if o["fam"] == "cones":
        o["a"] = [o["a"][0][:N]]
    return o


def cases(tier, seed):
    out = []
    for N in range(1, 6):
        for iters in (1, 2, 3, 4, 5):
            for eps in (3.0, 1.5, 1.0, 0.9, 0.5, 0.1, 0.01):
                for oi, obj in enumerate(GRID_OBJ):
                    out.append({"N": N, "lower": [0.0] * N, "upper": [1.0] * N, "box": "unit", "obj": _fit(obj, N), "r": 2.5,
                                "eps": eps, "iters": iters, "m": 10 if N * 10 <= 50 else 50 // N, "refine": False, "grp": "grid"})
    # exact-equality cases
    for N in range(1, 6):
        jmax = 8 if tier == "quick" else 10
        for j in range(1, jmax + 1):
            e0 = math.pow(2.0 ** (-j), 1.0 / N)
            for de in (0, 1, -1):
                eps = e0 if de == 0 else (math.nextafter(e0, 2.0) if de > 0 else math.nextafter(e0, 0.0))
                for oi, obj in enumerate(GRID_OBJ[:3] if tier == "thorough" else GRID_OBJ[:2]):
                    if de != 0 and oi > 0:
                        continue
                    m = 10 if N * 10 <= 50 else 50 // N
                    if N >= 2 and eps < 2.0 ** (-m):
                        continue
                    out.append({"N": N, "lower": [0.0] * N, "upper": [1.0] * N, "box": "unit", "obj": _fit(obj, N), "r": 2.0,
                                "eps": eps, "iters": 5000, "m": m, "refine": False, "grp": "equal", "j": j, "de": de})
    nl = 60 if tier == "quick" else 3000
    for i in range(nl):
        rng = scenario.rng_for(seed, "C03L", i)
        scn = scenario.gen_scenario(rng, max_iters=60, refine=False)
        scn["iters"] = int(rng.integers(2, 40))
        scn["grp"] = "raise-limit"
        l2 = scn["iters"] + int(rng.integers(1, 300))
        pat = [["solve"], ["set", "itersLimit", l2], ["solve"]]
        if rng.random() < 0.3:
            l3 = l2 + int(rng.integers(1, 200))
            pat += [["set", "itersLimit", l3], ["iter", int(rng.integers(1, 5))], ["solve"]]
        if rng.random() < 0.2:
            pat += [["set", "itersLimit", 1], ["solve"]]          # a lowered limit: nothing more may be evaluated
        scn["pattern"] = pat
        out.append(scn)
    nr = 80 if tier == "quick" else 4000
    for i in range(nr):
        # a local refinement happens on the same Solver BEFORE a Solve that still has global budget left:
        # local trials must not be charged to itersLimit
        rng = scenario.rng_for(seed, "C03R", i)
        scn = scenario.gen_scenario(rng, max_iters=60, refine=False,
                                    fams=["cones", "sines", "wells", "linear", "outside", "needle", "rcos"])
        scn["eps"] = max(scenario.eps_floor(scn["N"], scn["m"]) * 1.01, min(scn["eps"], 10 ** rng.uniform(-4, -2)))
        k1 = int(rng.integers(3, 40))
        more = int(rng.integers(5, 250))
        u = rng.random()
        if u < 0.4:
            scn["refine"] = True
            scn["iters"] = k1
            scn["pattern"] = [["solve"], ["set", "itersLimit", k1 + more], ["solve"]]
        elif u < 0.75:
            scn["iters"] = k1 + more
            scn["pattern"] = [["iter", k1], ["local", int(rng.integers(2, 60))], ["solve"]]
        else:
            scn["iters"] = k1
            scn["pattern"] = [["solve"], ["local", int(rng.integers(2, 60))], ["set", "itersLimit", k1 + more], ["solve"]]
            if rng.random() < 0.5:
                scn["refine"] = True
        scn["grp"] = "refined-before-solve"
        out.append(scn)
    n = 480 if tier == "quick" else 60000
    for i in range(n):
        rng = scenario.rng_for(seed, "C03", i)
        scn = scenario.gen_scenario(rng, max_iters=500 if tier == "quick" else 3000)
        scn["grp"] = "random"
        u = rng.random()
        if u < 0.2 and scn["iters"] > 3:
            b = int(rng.integers(1, min(scn["iters"], 40)))
            scn["pattern"] = [["iter", b], ["solve"]]
        out.append(scn)
    # eps below the cell size of the evolvent (N >= 2, eps = 0.05..0.9 x 2^-m): the last trials share cells with their neighbours; the
    # stop rule speaks about Hoelder lengths on [0,1] only, so the budget and the stop moment are judged as everywhere else
    for i in range(64 if tier == "quick" else 4000):
        rng = scenario.rng_for(seed, "C03sub", i)
        m = int(rng.integers(2, 7))
        scn = scenario.gen_scenario(rng, dims=(2, 2, 3), max_iters=400, m=m, fams=["cones", "sines", "wells", "linear", "rcos"])
        scn["eps"] = float(2.0 ** (-m) * rng.uniform(0.05, 0.9))
        scn["iters"] = int(rng.choice([30, 60, 120, 250, 400]))
        scn["grp"] = "subcell"
        out.append(scn)
    # workloads written by the repository's authors (shipped examples, solving tests) under the same oracle
    out += ambient.ambient_cases(tier)
    return out


def ulps(a, b):
    if a == b:
        return 0.0
    if not (math.isfinite(a) and math.isfinite(b)):
        return float("inf")
    return abs(a - b) / np.spacing(max(abs(a), abs(b)))


def run_case(scn):
    if "ambient" in scn:
        return ambient.run_ambient_case(scn, "C03")
    marks = []
    holder = {}

    def after_step(n, step):
        marks.append(holder["prob"].ng)

    pattern = scn.get("pattern", [["solve"]])
    lims = [s[2] for s in pattern if s[0] == "set" and s[1] == "itersLimit"]
    prob, info = record.make_problem(scn, cap=max([scn["iters"]] + lims) + sum(s[1] for s in pattern if s[0] == "iter") + 8)
    holder["prob"] = prob
    t = record.run_solver(scn, listener=True, problem=prob, after_step=after_step)
    if t.fp_exhausted:
        return {"violations": [], "obs": {"fp_domain_exhausted": 1}, "skip": "fp-domain-exhausted"}
    viol = []
    obs = {"runs": 1}
    N, eps = scn["N"], scn["eps"]
    if t.aborted or t.budget_violation:
        viol.append({"mech": "budget-runaway", "msg": "objective called more than the limit + 8 times in the global phase", "calls": t.problem.ng})
    if t.swallowed:
        viol.append({"mech": "solve-internal-exception", "msg": "Solve printed 'Exception was thrown' on a fault-free objective",
                     "stdout": t.stdout[-300:]})
    if not t.solutions:
        viol.append({"mech": "solve-did-not-return", "msg": "Solve returned nothing"})
        return {"violations": viol, "obs": obs}
    sol = t.solutions[-1]
    glog = [e for e in t.log if e["ph"] == "g"]
    T = len(glog)
    if sol.numberOfGlobalTrials != T:
        viol.append({"mech": "trial-count-mismatch", "reported": sol.numberOfGlobalTrials, "evaluations": T})
    xs, zs, problems = record.trial_sequence(t)
    for p in problems[:3]:
        viol.append({"mech": "trial-authentication", "msg": p})
    a = agp_model.audit(xs, zs, N, scn["r"])
    lens = a["lengths"]
    if len(lens) != T or any(v["kind"] in ("duplicate-coordinate", "outside-unit-interval") for v in a["violations"]):
        viol.append({"mech": "trial-log-unusable", "msg": "trial sequence could not be replayed by the model", "detail": a["violations"][:2]})
        return {"violations": viol, "obs": obs}

    # every Solve step is judged with the limit in force and the trials already made when it was called
    lim = scn["iters"]
    before = 0
    solves = []
    for n, step in enumerate(pattern):
        after = marks[n] if n < len(marks) else T
        if step[0] == "set" and step[1] == "itersLimit":
            lim = step[2]
        elif step[0] == "solve":
            solves.append((before, after, lim, eps, n))
        before = after
    v2, o2, reason = stoprule.judge(lens, solves)
    viol += v2
    for k_, v_ in o2.items():
        obs[k_] = obs.get(k_, 0) + v_
    sub = [L for L in lens[1:T] if L is not None]
    acc = float(sol.solutionAccuracy)
    av, kind = stoprule.accuracy(lens, T, acc)
    if av:
        viol.append(av)
    obs["accuracy_checked" if kind == "checked" else "single_trial_runs"] = 1
    if any(L == eps for L in sub):
        obs["equality_hit"] = 1          # an interval of length exactly eps was subdivided and the run went on
    nl = len([e for e in t.log if e["ph"] == "l"])
    if scn.get("refine"):
        obs["refine_runs"] = 1
        obs["local_evals"] = nl
    if scn.get("grp") == "refined-before-solve" and nl > 0:
        # was there a Solve that started after local trials had been made and still evaluated something?
        first_local = min(e["i"] for e in t.log if e["ph"] == "l")
        if any(e["ph"] == "g" and e["i"] > first_local for e in t.log):
            obs["global_trials_after_local_trials"] = 1
    obs["trials"] = T
    obs["grp_" + scn.get("grp", "x")] = 1
    key = "%d|%r|%d|%s|%d|%s|%d" % (N, eps, scn["iters"], scn["obj"]["fam"], T, reason, len(pattern))
    return {"violations": viol[:6], "obs": obs, "nontrivial": T >= 2, "key": key if T >= 2 else None,
            "sample": dict(scenario.short(scn), trials=T, reason=reason, accuracy=acc, grp=scn.get("grp"))}


def finalize(obs, tier, stats):
    miss = [k for k in ("stop_budget", "stop_accuracy", "equality_hit", "single_trial_runs", "refine_runs", "accuracy_checked", "solves_continuing_earlier_work", "grp_raise-limit", "grp_subcell", "global_trials_after_local_trials") if not obs.get(k)]
    if miss:
        return "never observed: %s" % miss, {}
    if obs.get("equality_hit", 0) < 10:
        return "fewer than 10 runs subdivided an interval of length exactly eps", {}
    return None, {}
