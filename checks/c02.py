"""C02 - every trial is placed by the AGP decision rule computed from all previous trials."""
import numpy as np

from vlib import ambient, scenario, record, agp_model

LEVEL = "exploration"
RULE = ("seeded scenarios (objective family x box x r x eps x budget x density x call pattern) run through the real "
        "Solver with a recording objective and listener; every prefix of the authenticated trial sequence is audited "
        "by an independent model of the decision rule. A case is non-trivial when at least 3 trials were audited; "
        "distinct = distinct (family, N, r, trial count, first 3 audited coordinates)."
       ' The point of the first trial must be a cell centre of the configured density on the configured box. A group of deep one-dimensional runs (eps 3e-16..1e-13) is audited with an arg-max tolerance of 1e-11 of the magnitude of the terms of the characteristic.')
ASSUMPTIONS = ["objective values finite and |z| <= 1e100", "eps kept inside the floating-point domain eps^N >= 2^-40 (except the deep one-dimensional group; runs ended by the method's own guard at adjacent doubles are skipped)",
               "arg-max compared with relative tolerance 1e-9 (ties accepted)"]
SIZES = {"quick": 480, "thorough": 40000}


def cases(tier, seed):
    out = []
    n = SIZES[tier]
    for i in range(n):
        rng = scenario.rng_for(seed, "C02", i)
        dims = (1, 2, 3) if (tier == "quick" and i % 4) else (1, 2, 3, 4, 5)
        scn = scenario.gen_scenario(rng, dims=dims, max_iters=400 if tier == "quick" else 3000, refine=False)
        # the audit is about placement: let most runs use their budget
        if rng.random() < 0.6:
            scn["iters"] = int(rng.choice([30, 60, 120, 250, 400] if tier == "quick" else [60, 250, 500, 1000, 3000]))
        u = rng.random()
        if u < 0.25:
            k = int(rng.integers(1, 20))
            scn["pattern"] = [["iter", k], ["solve"]]
        elif u < 0.4:
            scn["pattern"] = [["iter", 1]] * int(rng.integers(2, 30))
        elif u < 0.55:
            # the run is continued beyond the budget it was started with: Solve, raise itersLimit, Solve again / step on
            first = int(rng.integers(3, 25))
            more = int(rng.integers(20, 300 if tier == "quick" else 1500))
            scn["iters"] = first
            scn["eps"] = max(scenario.eps_floor(scn["N"], scn["m"]) * 1.01, min(scn["eps"], 0.02))
            if rng.random() < 0.5:
                scn["pattern"] = [["solve"], ["set", "itersLimit", first + more], ["solve"]]
            else:
                scn["pattern"] = [["solve"], ["iter", more]]
            scn["continued"] = True
        elif u < 0.7:
            # the global search goes on after a local refinement (explicit DoLocalRefinement, or Solve with refineSolution)
            scn["obj"] = scenario.gen_objective(rng, scn["N"], ["sines", "cones", "wells", "needle", "linear", "outside"])
            k1, k2 = int(rng.integers(3, 40)), int(rng.integers(10, 120))
            scn["iters"] = k1 + k2 + 50
            if rng.random() < 0.5:
                scn["pattern"] = [["iter", k1], ["local", int(rng.integers(2, 40))], ["iter", k2]]
            else:
                scn["refine"] = True
                scn["iters"] = k1
                scn["pattern"] = [["solve"], ["iter", k2], ["local", 7], ["iter", 9]]
            scn["refined_midway"] = True
        out.append(scn)
    # deep one-dimensional runs: eps between 3e-16 and 1e-13, so that the partition is refined down to a few doubles per interval
    # (runs that the method's own guard ends at adjacent doubles are skipped, see fp-domain-exhausted)
    for i in range(24 if tier == "quick" else 1500):
        rng = scenario.rng_for(seed, "C02deep", i)
        scn = scenario.gen_scenario(rng, dims=(1,), fams=["cones", "linear", "wells", "sines", "needle"], max_iters=400, refine=False)
        scn["eps"] = float(10 ** rng.uniform(-15.5, -13))
        scn["iters"] = int(rng.integers(300, 700))
        scn["deep"] = True
        if i % 2 == 0:
            # a single cone touching zero: values near the minimiser are as small as the intervals, so the characteristics of the
            # shortest intervals are resolved (with an offset of order 1 they drown in the rounding of z)
            scn["obj"] = {"fam": "cones", "a": [[float(rng.uniform(0.05, 0.95))]], "c": [0.0], "K": [float(10 ** rng.uniform(-1, 1))]}
        out.append(scn)
    # workloads written by the repository's authors (shipped examples, solving tests) under the same oracle
    out += ambient.ambient_cases(tier)
    return out


def run_case(scn):
    if "ambient" in scn:
        return ambient.run_ambient_case(scn, "C02")
    t = record.run_solver(scn, listener=True)
    if t.fp_exhausted:
        return {"violations": [], "obs": {"fp_domain_exhausted": 1}, "skip": "fp-domain-exhausted"}
    viol = []
    obs = {}
    if t.swallowed or t.aborted:
        viol.append({"mech": "solve-internal-exception", "msg": "Solve printed 'Exception was thrown' / aborted on a "
                     "fault-free objective", "stdout": t.stdout[-400:], "budget_violation": t.budget_violation})
    xs, zs, problems = record.trial_sequence(t)
    for p in problems[:3]:
        viol.append({"mech": "trial-authentication", "msg": p})
    viol += record.first_trial_problems(t, scn)
    obs["first_trials_checked_against_the_configured_grid"] = 1
    a = agp_model.audit(xs, zs, scn["N"], scn["r"], fp_tol=bool(scn.get("deep")))
    for v in a["violations"]:
        v = dict(v)
        v["mech"] = "decision-rule:" + v["kind"]
        viol.append(v)
    # final M of the real method must be the model's M (public attribute of the Method; evidence + cross-check)
    try:
        Mreal = float(t.solver.method.M[0])
        if abs(Mreal - a["M_final"]) > 1e-9 * max(1.0, abs(a["M_final"])):
            viol.append({"mech": "decision-rule:M-mismatch", "M_real": Mreal, "M_model": a["M_final"]})
        obs["M_compared"] = 1
    except Exception:
        obs["M_not_comparable"] = 1
    obs.update(a["events"])
    obs["runs"] = 1
    if scn.get("refined_midway"):
        obs["runs_continued_after_refinement"] = 1
        obs["local_evals"] = len([e for e in t.log if e["ph"] == "l"])
    if scn.get("continued"):
        obs["continued_beyond_first_budget"] = 1
        obs["max_trials_beyond_first_budget"] = max(0, len(xs) - scn["iters"])
    obs["trials"] = len(xs)
    if scn.get("deep"):
        obs["deep_runs"] = 1
        if len(xs) > 1:
            obs["min_interval_in_deep_runs"] = float(np.min(np.diff(sorted(xs))))
    obs["max_worst_gap"] = a["worst_gap"]
    obs["dims"] = [scn["N"]]
    obs["families"] = [scn["obj"]["fam"]]
    key = "%s|%d|%r|%d|%s" % (scn["obj"]["fam"], scn["N"], scn["r"], len(xs), ["%.12g" % x for x in xs[1:4]])
    return {"violations": viol, "obs": obs, "nontrivial": a["events"]["audited"] >= 3,
            "key": key if a["events"]["audited"] >= 3 else None,
            "sample": dict(scenario.short(scn), trials=len(xs), events=a["events"], first_x=xs[:5])}


def finalize(obs, tier, stats):
    need = 8000 if tier == "quick" else 500000
    if obs.get("audited", 0) < need:
        return "only %d trials audited (< %d)" % (obs.get("audited", 0), need), {}
    missing = [k for k in ("M_grew", "zstar_improved", "ties", "boundary_chosen", "branch_pos", "branch_neg", "continued_beyond_first_budget", "runs_continued_after_refinement", "deep_runs") if not obs.get(k)]
    if missing:
        return "mechanisms never observed: %s" % missing, {}
    return None, {}
