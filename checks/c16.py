"""C16 - an objective failure is contained: Solve returns the best-so-far result."""
import numpy as np

from vlib import scenario, record, moments

LEVEL = "fault_enumeration"
RULE = ("for each base scenario with fault-free length T the objective is made to raise on its k-th evaluation for EVERY k in 2..T (T <= 40 quick / 150 thorough) and "
        "every exception type in {RuntimeError, ValueError, ZeroDivisionError, MemoryError, KeyboardInterrupt, SystemExit, GeneratorExit, private BaseException}; "
        "Solve must return, report exactly k-1 trials with the best of the k-1 logged values, and the search information must pass the C06 audit without the "
        "failed point. Two further exception types (rotating over 18, incl. IndexError/KeyError/StopIteration/RecursionError and user subclasses) are injected at every k; a fifth of the "
        "faults are persistent (every later call fails too); long base runs (500..3000 trials) get faults at sampled k including the last. Faults are also injected after pre-batched iterations, and in SEQUENCES: 2-3 one-shot failures at random indices, Solve called again after each, count / best / record audited after every Solve. Non-trivial: every faulted run; distinct = (scenario, k, exception type)."
       " A fifth of the faulted runs carry the shipped ConsoleFullOutputListener. Deep base runs (r barely above 1, eps = 1e-300) that the method's own guard ends receive faults at every evaluation completed before the guard.")
ASSUMPTIONS = ["refineSolution=False (with refinement 'reflects exactly the k-1 completed trials' is not well defined)",
               "the reported accuracy after a fault is not checked (the statement lists count, point and value only)"]
CHUNK = 1


class PrivateBase(BaseException):
    pass


class UserError(Exception):
    pass


class UserIndexError(IndexError):
    pass


# further exception types an objective can plausibly raise; two of them (rotating) are injected at every k in addition to the eight above
EXTRA = {"IndexError": IndexError, "KeyError": KeyError, "LookupError": LookupError, "AttributeError": AttributeError, "TypeError": TypeError,
         "OSError": OSError, "StopIteration": StopIteration, "AssertionError": AssertionError, "RecursionError": RecursionError,
         "FloatingPointError": FloatingPointError, "OverflowError": OverflowError, "ArithmeticError": ArithmeticError,
         "NotImplementedError": NotImplementedError, "TimeoutError": TimeoutError, "UserError": UserError, "UserIndexError": UserIndexError,
         "Exception": Exception, "BaseException": BaseException}

EXC = {"RuntimeError": RuntimeError, "ValueError": ValueError, "ZeroDivisionError": ZeroDivisionError, "MemoryError": MemoryError,
       "KeyboardInterrupt": KeyboardInterrupt, "SystemExit": SystemExit, "GeneratorExit": GeneratorExit, "PrivateBase": PrivateBase}


def cases(tier, seed):
    out = []
    ns = 48 if tier == "quick" else 320
    Tmax = 40 if tier == "quick" else 150
    for i in range(ns):
        rng = scenario.rng_for(seed, "C16", i)
        scn = scenario.gen_scenario(rng, refine=False, max_iters=Tmax)
        scn["iters"] = int(rng.integers(6, Tmax + 1))
        if i % 3 != 1:
            scn["eps"] = max(scenario.eps_floor(scn["N"], scn["m"]), 1e-4)      # run to the budget
        out.append({"scn": scn, "i": i, "seed": seed})
    # long runs: the containment must not depend on how much search information has accumulated; k is sampled
    nl = 16 if tier == "quick" else 96
    for i in range(nl):
        rng = scenario.rng_for(seed, "C16L", i)
        scn = scenario.gen_scenario(rng, refine=False, max_iters=3000, fams=["cones", "sines", "wells", "linear", "noise", "rcos", "needle"])
        scn["iters"] = int(rng.integers(500, 1500 if tier == "quick" else 3000))
        scn["eps"] = scenario.eps_floor(scn["N"], scn["m"]) * 1.5
        out.append({"scn": scn, "i": 100000 + i, "seed": seed, "long": True})
    # deep one-dimensional runs (r barely above 1, eps far below the resolution of doubles): the fault-free run goes on until the method's own
    # floating-point guard ends it; faults are injected at every evaluation it completed before that
    for i in range(6 if tier == "quick" else 120):
        rng = scenario.rng_for(seed, "C16D", i)
        lo, hi, kind = scenario.gen_box(rng, 1, ["unit", "float", "int"][i % 3])
        scn = {"N": 1, "lower": lo, "upper": hi, "box": kind, "obj": {"fam": "cones", "a": [[float(rng.uniform(0.1, 0.9))]], "c": [0.0], "K": [float(10 ** rng.uniform(-1, 1))]},
               "r": float([1.0 + 1e-6, 1.0 + 1e-12, 1.001, 1.3][i % 4]), "eps": 1e-300, "iters": 60, "m": 10, "refine": False, "holder": "same"}
        out.append({"scn": scn, "i": 200000 + i, "seed": seed, "deep": True})
    return out


def run_case(c):
    scn = c["scn"]
    viol = []
    obs = {"base_scenarios": 1}
    base = record.run_solver(scn, listener=False)
    guard_ended = bool(base.fp_exhausted or record.guard_fired(base.stdout, base.solver))
    if guard_ended and not c.get("deep"):
        return {"violations": [], "obs": {"fp_domain_exhausted": 1}, "skip": "fp-domain-exhausted"}
    T = len([e for e in base.log if e["ph"] == "g" and e["exc"] is None and e["v"] is not None])
    if c.get("deep"):
        obs["deep_base_runs"] = 1
        obs["deep_base_runs_ended_by_the_guard"] = int(guard_ended)
        obs["max_T_deep"] = T
        T = T - 1 if guard_ended else T          # the evaluations completed before the guard fired
    if (base.swallowed or base.aborted) and not guard_ended:
        viol.append({"mech": "solve-internal-exception", "msg": "fault-free base run: Solve printed 'Exception was thrown'", "stdout": base.stdout[-300:]})
    obs["max_T"] = T
    keys = []
    rng = scenario.rng_for(c["seed"], "C16run", c["i"])
    extra_names = sorted(EXTRA)
    if c.get("long"):
        ks = sorted({2, 3, T, T - 1} | {int(v) for v in np.exp(rng.uniform(np.log(4), np.log(max(T, 5)), 6))} |
                    {int(v) for v in rng.integers(max(2, T // 2), T + 1, 4)})
        ks = [k for k in ks if 2 <= k <= T]
        obs["long_base_scenarios"] = 1
        obs["max_T_long"] = T
    else:
        ks = list(range(2, T + 1))
    for k in ks:
        if c.get("long"):
            names = ["RuntimeError", "KeyboardInterrupt", extra_names[(k + c["i"]) % len(extra_names)]]
            obs["max_k_long"] = max(obs.get("max_k_long", 0), k)
        else:
            names = list(EXC) + [extra_names[(2 * k + c["i"]) % len(extra_names)], extra_names[(2 * k + 1 + c["i"]) % len(extra_names)]]
        for name in names:
            exc = EXC.get(name) or EXTRA[name]
            persistent = bool(rng.random() < 0.2)
            s = dict(scn)
            # some faults happen in a Solve that follows pre-batched iterations
            pre = 0
            if k > 3 and rng.random() < 0.25:
                pre = int(rng.integers(1, k - 1))
                s["pattern"] = [["iter", pre], ["solve"]]
                obs["faults_after_prebatch"] = obs.get("faults_after_prebatch", 0) + 1
            prob, _ = record.make_problem(s, cap=scn["iters"] + pre + 8, fault=(k, exc, persistent))
            if persistent:
                obs["persistent_faults"] = obs.get("persistent_faults", 0) + 1
            extra = ()
            if rng.random() < 0.2:
                # the shipped console listener is attached (it reports after the search stopped, also when a fault stopped it)
                from iOpt.method.listener import ConsoleFullOutputListener
                extra = (ConsoleFullOutputListener(mode=["full", "custom", "result"][int(rng.integers(3))]),)
                obs["faulted_runs_with_a_console_listener"] = obs.get("faulted_runs_with_a_console_listener", 0) + 1
            try:
                t = record.run_solver(s, listener=False, problem=prob, extra_listeners=extra)
            except BaseException as e:
                obs["faulted_runs"] = obs.get("faulted_runs", 0) + 1
                if len(viol) < 6:
                    viol.append({"mech": "solve-raised", "k": k, "exc": name, "escaped": type(e).__name__, "console_listener": bool(extra),
                                 "msg": "an exception escaped Solve instead of the best-so-far result being returned"})
                continue
            obs["faulted_runs"] = obs.get("faulted_runs", 0) + 1
            if name in EXC:
                obs["exc_" + name] = obs.get("exc_" + name, 0) + 1
            else:
                obs["extra_exception_runs"] = obs.get("extra_exception_runs", 0) + 1
                obs["extra_types"] = sorted(set(obs.get("extra_types", [])) | {name})
            keys.append("%d|%d|%s" % (c["i"], k, name))
            if not t.solutions:
                viol.append({"mech": "solve-did-not-return", "k": k, "exc": name})
                continue
            sol = t.solutions[-1]
            done = [e for e in t.log if e["ph"] == "g" and e["exc"] is None and e["v"] is not None]
            failed = [e for e in t.log if e["exc"] is not None]
            if len(failed) != 1 or len(done) != k - 1 or len(t.log) != k:
                if len(viol) < 6:
                    viol.append({"mech": "evaluations-after-fault", "k": k, "exc": name, "completed": len(done), "failed": len(failed), "calls": len(t.log)})
            if sol.numberOfGlobalTrials != k - 1:
                if len(viol) < 6:
                    viol.append({"mech": "trial-count-after-fault", "k": k, "exc": name, "reported": sol.numberOfGlobalTrials, "expected": k - 1})
            om = moments.OptimumMonitor(prob)
            om.check(record.snap_solution(sol), "returned-after-fault", completed=done)
            for v in om.viol:
                if len(viol) < 6:
                    viol.append(dict(v, k=k, exc=name))
            sm = moments.SearchInfoMonitor(prob, t.solver, scn["N"], scn["lower"], scn["upper"], scn["m"])
            sm.check("after-fault")
            obs["items_checked"] = obs.get("items_checked", 0) + sm.items_checked
            for v in sm.viol:
                if len(viol) < 6:
                    viol.append(dict(v, k=k, exc=name))
            # the failed point must not be recorded (as an item or as the optimum)
            fy = failed[0]["y"] if failed else None
            if fy is not None and not any(np.array_equal(fy, e["y"]) for e in done):
                for it in t.solver.searchData:
                    yy = getattr(it.GetY(), "floatVariables", None)
                    if yy is not None and len(yy) and np.array_equal(np.asarray(yy, dtype=float), fy) and 0 < it.GetX() < 1:
                        if len(viol) < 6:
                            viol.append({"mech": "failed-point-recorded", "k": k, "exc": name, "point": fy.tolist()})
                        break
    # ---- fault SEQUENCES: the objective fails (once each) at several evaluation indices; after every failure the user calls Solve again
    # on the same Solver.  After EVERY Solve the result must reflect exactly the trials completed so far and the record must hold them only.
    if not c.get("long") and T >= 8:
        for q in range(6):
            ks = sorted({int(v) for v in rng.integers(2, T + 1, int(rng.integers(2, 4)))})
            names = [list(EXC)[int(rng.integers(len(EXC)))] for _ in ks]
            fm = {k: EXC[n] for k, n in zip(ks, names)}
            s = dict(scn, pattern=[["solve"]] * (len(ks) + 1))
            prob, _ = record.make_problem(s, cap=scn["iters"] + 20, fault=fm)
            marks = []

            def after_step(n, step, prob=prob, marks=marks):
                done_now = [e for e in prob.log if e["ph"] == "g" and e["exc"] is None and e["v"] is not None]
                sol = prob.solver.GetResults()
                marks.append((len(done_now), sol.numberOfGlobalTrials, record.snap_solution(sol), list(done_now)))
            try:
                t = record.run_solver(s, listener=False, problem=prob, after_step=after_step)
            except BaseException as e:
                if len(viol) < 6:
                    viol.append({"mech": "solve-raised", "fault_sequence": ks, "exc": names, "escaped": type(e).__name__})
                continue
            obs["fault_sequences"] = obs.get("fault_sequences", 0) + 1
            obs["faults_in_sequences"] = obs.get("faults_in_sequences", 0) + len([e for e in t.log if e["exc"] is not None])
            if t.fp_exhausted or record.guard_fired(t.stdout, t.solver):
                continue
            for n, (ndone, reported, snap, done_now) in enumerate(marks):
                if reported != ndone:
                    if len(viol) < 6:
                        viol.append({"mech": "trial-count-after-fault", "fault_sequence": ks, "exc": names, "after_solve": n + 1, "reported": reported, "completed": ndone})
                    break
                om = moments.OptimumMonitor(prob)
                om.check(snap, "after-solve-%d-of-a-fault-sequence" % (n + 1), completed=done_now)
                for v in om.viol:
                    if len(viol) < 6:
                        viol.append(dict(v, fault_sequence=ks, exc=names))
            sm = moments.SearchInfoMonitor(prob, t.solver, scn["N"], scn["lower"], scn["upper"], scn["m"])
            sm.check("after-fault-sequence")
            for v in sm.viol:
                if len(viol) < 6:
                    viol.append(dict(v, fault_sequence=ks, exc=names))
            keys.append("%d|seq|%s" % (c["i"], ks))
    return {"violations": viol, "obs": obs, "nontrivial": True, "keys": keys,
            "sample": dict(scenario.short(scn), T=T, fault_positions="every k in 2..%d" % T, exception_types=list(EXC))}


def finalize(obs, tier, stats):
    need = 2000 if tier == "quick" else 30000
    if obs.get("faulted_runs", 0) < need:
        return "only %d faulted runs" % obs.get("faulted_runs", 0), {}
    for n in EXC:
        if not obs.get("exc_" + n):
            return "exception type %s never injected" % n, {}
    if len(obs.get("extra_types", [])) < len(EXTRA):
        return "extended exception types not all injected: %s" % obs.get("extra_types"), {}
    if obs.get("faults_in_sequences", 0) < 100:
        return "too few faults injected in sequences (%s)" % obs.get("faults_in_sequences"), {}
    if not obs.get("long_base_scenarios") or obs.get("max_k_long", 0) < 400:
        return "no fault injected late in a long run (max k %s)" % obs.get("max_k_long"), {}
    return None, {"fault_space": "every k in 2..T x %d exception types (+2 rotating of %d further types) per base scenario; long runs: sampled k" % (len(EXC), len(EXTRA))}
