"""C06 - the search information is a faithful, ordered and complete record of the trials."""
import numpy as np

from vlib import ambient, scenario, record, moments

LEVEL = "exploration"
RULE = ("seeded scenarios (all objective families, N=1..5, boxes of every kind, densities 2..12) driven step-by-step, in batches and by Solve; "
        "after every step (every step for the first 200 trials, every 10th afterwards), inside every OnEndIteration callback and after Solve "
        "(refineSolution=False) the public iteration over Solver.searchData is audited: order, end points, links, count, completeness "
        "against the objective's call log, interval lengths, stored point = image of a fresh Evolvent, stored values. An invariant wrapper "
        "re-checks the local links after every InsertDataItem call. A further group injects one transient objective failure (at evaluation 1, 2, 3 or later) and goes on with the same Solver: the record must list exactly the completed trials at every later step. Non-trivial: >= 4 trials; distinct = (family, N, m, box kind, "
        "trial count, number of moments)."
       ' In 30% of the stepped / batched scenarios a do-nothing Listener is attached midway.')
ASSUMPTIONS = ["evaluated at quiescent points of the global phase; after Solve only when refineSolution=False (refinement deliberately rewrites the optimum in place)",
               "interval lengths compared within 4 ulp of libm pow", "stored point compared bitwise with a fresh Evolvent of the same bounds and density"]
SIZES = {"quick": 320, "thorough": 18000}
CASE_TIMEOUT = 400

_insert_stats = {"calls": 0, "bad": []}
_wrapped = False


def install_insert_invariant():
    """Post-condition on SearchData.InsertDataItem (harness-side wrapper on the imported class)."""
    global _wrapped
    if _wrapped:
        return
    from iOpt.method.search_data import SearchData
    orig = SearchData.InsertDataItem

    def InsertDataItem(self, newDataItem, rightDataItem=None):
        r = orig(self, newDataItem, rightDataItem)
        _insert_stats["calls"] += 1
        l, rr = newDataItem.GetLeft(), newDataItem.GetRight()
        ok = (l is not None and rr is not None and l.GetRight() is newDataItem and rr.GetLeft() is newDataItem
              and l.GetX() < newDataItem.GetX() < rr.GetX())
        if not ok and len(_insert_stats["bad"]) < 3:
            _insert_stats["bad"].append({"x": float(newDataItem.GetX()),
                                         "left": None if l is None else float(l.GetX()),
                                         "right": None if rr is None else float(rr.GetX())})
        return r
    SearchData.InsertDataItem = InsertDataItem
    _wrapped = True


def cases(tier, seed):
    out = []
    for i in range(SIZES[tier]):
        rng = scenario.rng_for(seed, "C06", i)
        scn = scenario.gen_scenario(rng, max_iters=300 if tier == "quick" else 2000)
        if rng.random() < 0.6:
            scn["iters"] = int(rng.choice([20, 50, 100, 200, 300] if tier == "quick" else [50, 200, 500, 1000, 2000]))
        u = rng.random()
        if u < 0.35:
            scn["pk"] = "steps"
            scn["pattern"] = [["iter", 1]] * int(rng.integers(2, 80 if tier == "quick" else 400)) + ([["solve"]] if rng.random() < 0.5 else [])
            if rng.random() < 0.5:
                # pure queries to the solver's own evolvent between the steps (right after the first iteration, and later)
                pat = list(scn["pattern"])
                for pos in sorted({1, int(rng.integers(1, len(pat) + 1)), int(rng.integers(1, len(pat) + 1))}, reverse=True):
                    pat.insert(pos, ["evq", int(rng.integers(1 << 30))])
                scn["pattern"] = pat
                scn["evq"] = True
        elif u < 0.65:
            parts = [int(v) for v in rng.integers(1, 25, int(rng.integers(1, 8)))]
            scn["pk"] = "batches"
            scn["pattern"] = [["iter", k] for k in parts] + [["solve"]]
        else:
            scn["pk"] = "solve"
            scn["pattern"] = [["solve"]]
        if scn["pk"] != "solve" and rng.random() < 0.3:
            # one more observer is attached while the search is under way (a do-nothing Listener): the record must not notice
            pat = list(scn["pattern"])
            pat.insert(int(rng.integers(1, len(pat))) if len(pat) > 1 else 1, ["listen"])
            scn["pattern"] = pat
            scn["late_listener"] = True
        out.append(scn)
    # runs driven (by iteration batches, which ignore eps) until the partition reaches adjacent doubles: the record must stay
    # valid at every step up to and including the moment the method gives up
    for i in range(16 if tier == "quick" else 120):
        rng = scenario.rng_for(seed, "C06c", i)
        N = 1 if i % 4 else 2
        lo, hi, kind = scenario.gen_box(rng, N, "unit" if i % 3 == 0 else None)
        fam = ["linear", "outside", "cones", "linear"][i % 4]
        obj = scenario.gen_objective(rng, N, [fam])
        if fam == "cones":
            obj = {"fam": "cones", "a": [obj["a"][0]], "c": [obj["c"][0]], "K": [obj["K"][0]]}
        mode = ["float", "npfloat", "float"][i % 3]
        if mode == "npfloat":
            obj = {"fam": "scaled", "base": obj, "mode": "npfloat"}
        out.append({"N": N, "lower": lo, "upper": hi, "box": kind, "obj": obj, "r": float(rng.choice([1.3, 2.0, 3.0, 5.0])), "eps": 1e-3,
                    "iters": 400, "m": 10, "refine": False, "holder": "same", "pk": "collapse",
                    "pattern": [["iter", 1]] * 40 + [["iter", 10]] * 26})
    # a transient objective failure (one-shot, at evaluation k = 1, 2 or later) followed by a retry / continuation on the same Solver:
    # the record must list exactly the completed trials at every later step
    for i in range(60 if tier == "quick" else 3000):
        rng = scenario.rng_for(seed, "C06f", i)
        scn = scenario.gen_scenario(rng, max_iters=80, refine=False)
        scn["iters"] = int(rng.integers(10, 80))
        scn["eps"] = max(scenario.eps_floor(scn["N"], scn["m"]) * 1.01, min(scn["eps"], 1e-3))
        k = [1, 1, 2, 3][i % 4] if i % 2 == 0 else int(rng.integers(1, scn["iters"]))
        scn["fault_at"] = k
        scn["pk"] = "fault-retry"
        if i % 3 == 0:
            scn["pattern"] = [["solve"], ["solve"], ["iter", 3]]
        elif i % 3 == 1:
            scn["pattern"] = [["iter", 1]] * (k + 6) + [["solve"]]
        else:
            scn["pattern"] = [["iter", int(v)] for v in rng.integers(1, 9, 6)] + [["solve"], ["solve"]]
        out.append(scn)
    # workloads written by the repository's authors (shipped examples, solving tests) under the same oracle
    out += ambient.ambient_cases(tier)
    return out


def run_fault_retry(scn):
    """one-shot failure of the objective at evaluation fault_at; calls that raise are caught (as a user would) and the
    program goes on; the record is audited after every step"""
    import contextlib
    import io
    from iOpt.solver import Solver
    record.install_phase_wrappers()
    del record.PHASE[:]
    install_insert_invariant()
    _insert_stats["calls"] = 0
    _insert_stats["bad"] = []
    prob, info = record.make_problem(scn, cap=scn["iters"] + sum(s[1] for s in scn["pattern"] if s[0] == "iter") + 12,
                                     fault=(scn["fault_at"], RuntimeError))
    solver = Solver(prob, parameters=record.make_params(scn))
    prob.solver = solver
    m = moments.SearchInfoMonitor(prob, solver, scn["N"], scn["lower"], scn["upper"], scn["m"])
    lst = record.RecordingListener(on_event=lambda kind, sol: m.check("callback:" + kind + "+after-fault") if (kind == "iter" and any(e["exc"] for e in prob.log)) else None)
    solver.AddListener(lst)
    raised = 0
    gave_up = False
    out = io.StringIO()
    with contextlib.redirect_stdout(out):
        for step in scn["pattern"]:
            try:
                if step[0] == "iter":
                    solver.DoGlobalIteration(step[1])
                else:
                    solver.Solve()
            except RuntimeError as e:
                if "injected fault" not in str(e):
                    raise
                raised += 1
            except Exception as e:
                if record.guard_fired(e, solver):
                    # the partition reached adjacent doubles (iteration steps ignore eps): floating-point domain limit, DESIGN.md section 3
                    m.check("after:fp-guard")
                    return {"violations": list(m.viol), "obs": {"fp_domain_exhausted": 1, "items_checked": m.items_checked}, "skip": "fp-domain-exhausted"}
                if not any(e_["exc"] for e_ in prob.log):
                    raise
                # C06 promises a faithful record, not that a search can always be continued after a failed evaluation (the interval
                # popped for the failed trial is back in the queue only after the next refill): stop driving, audit the record as it stands
                gave_up = True
                m.check("after:continuation-raised+after-fault")
                break
            if record.guard_fired(out.getvalue(), solver):
                return {"violations": [], "obs": {"fp_domain_exhausted": 1}, "skip": "fp-domain-exhausted"}
            m.check("after:" + step[0] + ("+after-fault" if any(e["exc"] for e in prob.log) else ""))
    viol = list(m.viol)
    for b in _insert_stats["bad"]:
        viol.append(dict(b, mech="searchinfo:insert-postcondition"))
    faulted = any(e["exc"] for e in prob.log)
    done = len([e for e in prob.log if e["exc"] is None and e["ph"] == "g"])
    obs = {"runs": 1, "fault_retry_runs": int(faulted), "faults_at_first_evaluation": int(faulted and scn["fault_at"] == 1),
           "faults_propagated_to_caller": raised, "continuation_raised": int(gave_up), "trials": done, "trials_after_a_fault": max(0, done - scn["fault_at"] + 1) if faulted else 0,
           "items_checked": m.items_checked, "images_checked": m.images_checked, "insert_calls_checked": _insert_stats["calls"],
           "moments": sum(m.moments.values())}
    for k, v in m.moments.items():
        obs["moments_" + k] = v
    for v in viol:
        v.setdefault("fault_at", scn["fault_at"])
        v.setdefault("pattern", scn["pattern"][:6])
    return {"violations": viol, "obs": obs, "nontrivial": done >= 4,
            "key": "fault|%s|%d|%d|%d" % (scn["obj"]["fam"], scn["N"], scn["fault_at"], done) if done >= 4 else None,
            "sample": dict(scenario.short(scn), pattern_kind="fault-retry", fault_at=scn["fault_at"], trials=done, raised_to_caller=raised) if scn["fault_at"] <= 2 else None}


def run_case(scn):
    if "ambient" in scn:
        return ambient.run_ambient_case(scn, "C06")
    if scn.get("pk") == "fault-retry":
        return run_fault_retry(scn)
    install_insert_invariant()
    _insert_stats["calls"] = 0
    _insert_stats["bad"] = []
    cap = scn["iters"] + sum(s[1] for s in scn["pattern"] if s[0] == "iter") + 8
    prob, info = record.make_problem(scn, cap=cap)
    st = {"mon": None, "n": 0}

    def mon():
        if st["mon"] is None:
            st["mon"] = moments.SearchInfoMonitor(prob, prob.solver, scn["N"], scn["lower"], scn["upper"], scn["m"])
        return st["mon"]

    def due():
        k = prob.ng
        return k <= 200 or k % 10 == 0

    def on_event(kind, solution):
        if kind == "iter" and due():
            mon().check("callback:iter")

    def after_step(n, step):
        if step[0] == "iter":
            if due():
                mon().check("after:iter")
        elif not scn.get("refine"):
            mon().check("after:solve")

    t = record.run_solver(scn, listener=True, on_event=on_event, after_step=after_step, problem=prob)
    m = mon()
    viol = list(m.viol)
    if t.fp_exhausted:
        # the method's own guard stopped the run at adjacent doubles: the record as it stands must still be valid
        m.check("after:fp-guard")
        viol = list(m.viol)
        return {"violations": viol, "obs": {"fp_domain_exhausted": 1, "items_checked": m.items_checked, "moments": sum(m.moments.values()),
                                            "collapse_runs": int(scn.get("pk") == "collapse"), "trials": prob.ng},
                "skip": "fp-domain-exhausted", "nontrivial": True,
                "key": "collapse|%s|%d|%d" % (scn["obj"]["fam"], scn["N"], prob.ng)}
    for b in _insert_stats["bad"]:
        viol.append(dict(b, mech="searchinfo:insert-postcondition"))
    if t.swallowed or t.aborted:
        viol.append({"mech": "solve-internal-exception", "stdout": t.stdout[-300:]})
    T = prob.ng
    if scn.get("evq"):
        stepobs_evq = 1
    obs = {"runs": 1, "runs_with_a_listener_attached_midway": int(bool(scn.get("late_listener"))), "runs_with_evolvent_queries_between_steps": int(bool(scn.get("evq"))), "trials": T, "items_checked": m.items_checked, "images_checked": m.images_checked,
           "insert_calls_checked": _insert_stats["calls"], "moments": sum(m.moments.values())}
    for k, v in m.moments.items():
        obs["moments_" + k] = v
    obs["max_items_in_one_traversal"] = T + 2 if m.moments else 0
    nt = T >= 4 and sum(m.moments.values()) >= 1
    return {"violations": viol, "obs": obs, "nontrivial": nt,
            "key": "%s|%d|%d|%s|%d|%d" % (scn["obj"]["fam"], scn["N"], scn["m"], scn["box"], T, sum(m.moments.values())) if nt else None,
            "sample": dict(scenario.short(scn), pattern_kind=scn["pk"], trials=T, moments=dict(m.moments), items_checked=m.items_checked)}


def finalize(obs, tier, stats):
    need = 100000 if tier == "quick" else 2000000
    if obs.get("items_checked", 0) < need:
        return "only %d stored items audited (< %d)" % (obs.get("items_checked", 0), need), {}
    miss = [k for k in ("moments_callback:iter", "moments_after:iter", "moments_after:solve", "insert_calls_checked", "images_checked", "collapse_runs", "faults_at_first_evaluation", "trials_after_a_fault", "runs_with_evolvent_queries_between_steps", "runs_with_a_listener_attached_midway") if not obs.get(k)]
    if miss:
        return "never observed: %s" % miss, {}
    return None, {}
