"""C20 - the configured evolvent density is honoured."""
import numpy as np

from vlib import ambient, scenario, record

LEVEL = "exploration"
RULE = ("every evolventDensity m in 2..12 x every dimension N in 2..5 x boxes of every kind x objectives (cones, sines, linear, noise), the density given by constructor keyword, positionally, by attribute assignment, as a Python int or a numpy integer scalar, and by re-assigning it on one parameters object reused for several Solvers; each "
        "global-phase trial point must satisfy ((y-lower)/side)*2^m - 1/2 = integer in [0,2^m) within a rounding-derived tolerance <= 4e-6 (cell centres of different "
        "densities never coincide, so membership in the configured grid excludes every other density). Non-trivial: >= 10 trials; "
        "distinct = (N, m, box kind, family, number of distinct cells visited)."
       ' A group of boxes has one side 1e11..1e15 times longer than another.')
ASSUMPTIONS = ["refinement evaluations themselves leave the grid by design; the global-phase trials made before AND after a refinement are checked",
               "|lower|/side <= 1e6: rounding of the affine map stays below 4e-6 cell widths for m <= 12 (tolerance max(1e-6, 8 ulp(max|bound|)/side*2^m))", "refineSolution=False (refinement leaves the grid by design)"]


def cases(tier, seed):
    out = []
    reps = 4 if tier == "quick" else 160
    idx = 0
    for N in (2, 3, 4, 5):
        for m in range(2, 13):
            for rep in range(reps):
                rng = scenario.rng_for(seed, "C20", idx)
                idx += 1
                lo, hi, kind = scenario.gen_box(rng, N)
                obj = scenario.gen_objective(rng, N, ["cones", "sines", "linear", "noise", "wells"])
                out.append({"N": N, "lower": lo, "upper": hi, "box": kind, "obj": obj, "r": float(rng.choice([2.0, 3.0, 4.5])),
                            "eps": max(2.0 ** (-m), scenario.eps_floor(N, m)) * 1.01, "iters": int(rng.choice([40, 80, 150])) if tier == "quick" else int(rng.choice([60, 150, 300])),
                            "m": m, "refine": False,
                            "pattern": ([["solve"]] if rep % 2 == 0 else [["iter", 7], ["solve"]]) if (rep + m + N) % 3 else
                                       [["iter", 9], ["local", 6], ["iter", 25], ["solve"]],      # the global search goes on after a local refinement
                            "params_how": ["ctor", "assign", "positional", "assign"][(rep + m) % 4],
                            "m_type": ["int", "np.int64", "int", "np.int32", "int", "np.intp", "np.uint8"][(rep * 3 + m + N) % 7]})
    # boxes with extremely unequal sides (one axis 1e11..1e15 times longer than another): the grid is per axis, so every density stays exact
    for i in range(16 if tier == "quick" else 400):
        rng = scenario.rng_for(seed, "C20U", i)
        N = int(rng.integers(2, 5))
        m = int(rng.integers(6, 13))
        sides = 10 ** rng.uniform(-1, 1, N)
        sides[int(rng.integers(N))] *= 10 ** rng.uniform(11, 15)
        lo = [float(v) for v in rng.uniform(-1, 1, N) * np.minimum(sides, 1e3)]
        hi = [l + float(s) for l, s in zip(lo, sides)]
        obj = scenario.gen_objective(rng, N, ["cones", "sines", "linear", "wells"])
        out.append({"N": N, "lower": lo, "upper": hi, "box": "unequal", "obj": obj, "r": float(rng.choice([2.0, 3.0])),
                    "eps": max(2.0 ** (-m), scenario.eps_floor(N, m)) * 1.01, "iters": 60, "m": m, "refine": False, "pattern": [["solve"]],
                    "params_how": "ctor", "m_type": "int", "unequal": True})
    # one SolverParameters object reused for a sweep over densities: the user changes p.evolventDensity between Solvers
    nsw = 12 if tier == "quick" else 600
    for i in range(nsw):
        rng = scenario.rng_for(seed, "C20S", i)
        N = int(rng.integers(2, 6))
        lo, hi, kind = scenario.gen_box(rng, N)
        obj = scenario.gen_objective(rng, N, ["cones", "sines", "linear", "wells"])
        ms = [int(v) for v in rng.permutation(np.arange(2, min(12, 50 // N) + 1))[:5]]
        out.append({"sweep": ms, "N": N, "lower": lo, "upper": hi, "box": kind, "obj": obj, "r": 3.0, "eps": 0.02, "iters": 40, "m": ms[0],
                    "refine": False, "start": ["default", "ctor"][i % 2]})
    # workloads written by the repository's authors (shipped examples, solving tests) under the same oracle
    out += ambient.ambient_cases(tier)
    return out


def grid_violations(glog, lo, side, m, dens, viol, cells):
    # rounding of y = lower + u*side is a few ulp of max(|lower|,|upper|); in grid units that is ulp/side*2^m per axis
    # (|lower|/side <= 1e6 and m <= 12 keep it below 4e-6; centres of any other density are >= 1/4 away)
    tol = np.maximum(1e-6, 8.0 * np.spacing(np.maximum(np.abs(lo), np.abs(lo + side))) / side * (2.0 ** m))
    for e in glog:
        q = (e["y"] - lo) / side * (2.0 ** m) - 0.5
        j = np.rint(q)
        if np.any(np.abs(q - j) > tol) or np.any(j < 0) or np.any(j >= 2 ** m):
            if len(viol) < 3:
                viol.append({"mech": "trial-off-configured-grid", "m": m, "evolvent_density_attr": dens, "point": e["y"].tolist(),
                             "grid_coordinate": q.tolist()})
        cells.add(tuple(int(v) for v in j))


def run_sweep(scn):
    import contextlib
    import io
    from iOpt.solver import Solver
    from iOpt.solver_parametrs import SolverParameters
    lo = np.array(scn["lower"], dtype=float)
    side = np.array(scn["upper"], dtype=float) - lo
    viol, cells, trials = [], set(), 0
    p = SolverParameters() if scn["start"] == "default" else SolverParameters(eps=0.5, r=2.0, itersLimit=5, evolventDensity=scn["sweep"][-1])
    p.r, p.itersLimit = scn["r"], scn["iters"]
    for m in scn["sweep"]:
        p.evolventDensity = m
        p.eps = max(scn["eps"], 2.0 ** (-m) * 1.01)
        prob, _ = record.make_problem(scn, cap=scn["iters"] + 8)
        with contextlib.redirect_stdout(io.StringIO()):
            s = Solver(prob, parameters=p)
            s.Solve()
        glog = [e for e in prob.log if e["ph"] == "g"]
        trials += len(glog)
        c = set()
        grid_violations(glog, lo, side, m, getattr(s.evolvent, "evolventDensity", None), viol, c)
        cells |= {(m,) + t for t in c}
    obs = {"runs": len(scn["sweep"]), "sweeps_over_one_parameters_object": 1, "trials": trials, "distinct_cells": len(cells),
           "densities": list(scn["sweep"]), "dims": [scn["N"]]}
    return {"violations": viol, "obs": obs, "nontrivial": trials >= 10,
            "key": "sweep|%d|%s|%s|%d" % (scn["N"], scn["sweep"], scn["obj"]["fam"], len(cells)),
            "sample": None}


def run_case(scn):
    if "ambient" in scn:
        return ambient.run_ambient_case(scn, "C20")
    if "sweep" in scn:
        return run_sweep(scn)
    t = record.run_solver(scn, listener=False)
    if t.fp_exhausted:
        return {"violations": [], "obs": {"fp_domain_exhausted": 1}, "skip": "fp-domain-exhausted"}
    viol = []
    if t.swallowed or t.aborted:
        viol.append({"mech": "solve-internal-exception", "stdout": t.stdout[-300:]})
    lo = np.array(scn["lower"], dtype=float)
    side = np.array(scn["upper"], dtype=float) - lo
    m = scn["m"]
    cells = set()
    glog = [e for e in t.log if e["ph"] == "g"]
    try:
        dens = int(t.solver.evolvent.evolventDensity)
    except Exception:
        dens = None
    grid_violations(glog, lo, side, m, dens, viol, cells)
    obs = {"runs": 1, "runs_on_boxes_with_extremely_unequal_sides": int(bool(scn.get("unequal"))), "trials": len(glog), "distinct_cells": len(cells), "densities": [m], "dims": [scn["N"]],
           "params_" + scn.get("params_how", "ctor"): 1, "density_type_" + scn.get("m_type", "int"): 1}
    ll = [e["i"] for e in t.log if e["ph"] == "l"]
    if ll:
        obs["global_trials_after_a_refinement"] = len([e for e in glog if e["i"] > min(ll)])
    nt = len(glog) >= 10
    return {"violations": viol, "obs": obs, "nontrivial": nt,
            "key": "%d|%d|%s|%s|%d" % (scn["N"], m, scn["box"], scn["obj"]["fam"], len(cells)) if nt else None,
            "sample": dict(scenario.short(scn), trials=len(glog), distinct_cells=len(cells))}


def finalize(obs, tier, stats):
    if sorted(obs.get("densities", [])) != list(range(2, 13)) or sorted(obs.get("dims", [])) != [2, 3, 4, 5]:
        return "not every density/dimension was exercised", {}
    if obs.get("trials", 0) < 3000:
        return "too few trials", {}
    miss = [k for k in ("params_ctor", "params_assign", "params_positional", "sweeps_over_one_parameters_object", "density_type_int",
                        "density_type_np.int64", "density_type_np.int32", "density_type_np.intp", "density_type_np.uint8", "global_trials_after_a_refinement", "runs_on_boxes_with_extremely_unequal_sides") if not obs.get(k)]
    if miss:
        return "ways of configuring the density never exercised: %s" % miss, {}
    return None, {}
