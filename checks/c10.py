"""C10 - the declared optimum of every benchmark instance is its true global minimum."""
import math

import numpy as np

from vlib import scenario, bench, lipschitz

LEVEL = "exploration"
RULE = ("through the real Calculate: (a) Hill 0..999, Shekel 0..999, Rastrigin(1), XSquared(1): Lipschitz-certified branch-and-bound over the whole segment with an analytic "
        "bound of the Lipschitz constant from the coefficient tables (every point of the box is covered, given that bound); (b) Grishagin 1..100 (49x49 grid in quick, 401x401 in thorough), "
        "GKLS 2..5 x 1..100, Shekel4 1..3, Rastrigin / XSquared in dimensions 2..12 (and 13..128 by sampling plus axis line searches), StronginC3 over its feasible set: dense grid or low-discrepancy sampling + bounded local "
        "polishing from the best cells, from the declared point and from structure-aware starts (GKLS minimisers and balls, Shekel4 centres). Checked: |f(x_decl)-f_decl| <= 1e-4 (right after construction through the `fv = Calculate(point, fv)` idiom with the holder reused, and again after the instance has been evaluated), "
        "no value below f_decl - 2e-3*max(1,|f_decl|), a point within 0.5% of the side of x_decl whose value is within that tolerance of the best value found. "
        "All instances of a case are constructed before any of them is examined (siblings built later are alive). Non-trivial: every instance; distinct = family member."
       ' Every third instance is solved a little (console listener attached and / or refinement) and every 16th receives 6000 further evaluations before its declaration is read again; the declaration must be bitwise unchanged.')
ASSUMPTIONS = ["Lipschitz bounds: Hill sum 2*pi*i*sqrt(a_i^2+b_i^2); Shekel sum (3*sqrt(3)/8)*sqrt(k_i/c_i^3); Rastrigin(1) 2*2.2+20*pi; XSquared(1) 2",
               "multi-dimensional families are explored, not certified: a narrow basin missed by the grid and all starts would go unnoticed",
               "near-ties between basins within the stated value tolerance are not an alarm"]
CHUNK = 1


def cases(tier, seed):
    out = []
    for fam in ("hill", "shekel"):
        for a in range(0, 1000, 25):
            out.append({"kind": "1d", "keys": [[fam, k] for k in range(a, a + 25)]})
    out.append({"kind": "1d", "keys": [["rastrigin", 1], ["xsquared", 1]]})
    gr = list(range(1, 101))
    for a in range(0, len(gr), 2):
        out.append({"kind": "grid2d", "keys": [["grishagin", k] for k in gr[a:a + 2]], "g": 48 if tier == "quick" else 400})
    for n in (2, 3, 4, 5):
        for a in range(1, 101, 10):
            out.append({"kind": "gkls", "n": n, "ks": list(range(a, a + 10)), "seed": seed, "pts": 1500 if tier == "quick" else 20000})
    for k in (1, 2, 3):
        out.append({"kind": "multi", "key": ["shekel4", k], "seed": seed, "starts": 60 if tier == "quick" else 1500})
    for fam in ("rastrigin", "xsquared"):
        for d in range(2, 13):
            out.append({"kind": "multi", "key": [fam, d], "seed": seed, "starts": 40 if tier == "quick" else 1200})
    out.append({"kind": "strongin", "g": 200 if tier == "quick" else 600, "seed": seed})
    # "Rastrigin and XSquared in any dimension": high dimensions, examined by sampling and coordinate-wise line searches
    for fam in ("rastrigin", "xsquared"):
        for d in HIGH_DIMS:
            out.append({"kind": "highdim", "key": [fam, d], "seed": seed, "pts": 400 if tier == "quick" else 4000})
    return out


HIGH_DIMS = (13, 16, 20, 24, 31, 32, 33, 40, 48, 64, 100, 128)


def lip_bound(key):
    fam = key[0]
    if fam == "hill":
        import iOpt.problems.Hill.hill_generation as g
        a, b = np.array(g.aHill[key[1]], dtype=float), np.array(g.bHill[key[1]], dtype=float)
        i = np.arange(g.NUM_HILL_COEFF, dtype=float)
        return float((2 * math.pi * i * np.sqrt(a * a + b * b)).sum())
    if fam == "shekel":
        import iOpt.problems.Shekel.shekel_generation as g
        k, c = np.array(g.kShekel[key[1]], dtype=float), np.array(g.cShekel[key[1]], dtype=float)
        return float(((3 * math.sqrt(3) / 8) * np.sqrt(k / c ** 3)).sum())
    if fam == "rastrigin":
        return 2 * 2.2 + 20 * math.pi
    if fam == "xsquared":
        return 2.0
    raise ValueError(key)


def tol_of(fd):
    return 2e-3 * max(1.0, abs(fd))


def check_declared_value(p, key, viol):
    """clause 1 right after construction.  The first evaluation of the fresh instance is at the declared point and goes
    through the library idiom `fv = problem.Calculate(point, fv)`; the holder handed back is then reused for another point
    (as Process / the painters do) and the declared optimum is read again."""
    from iOpt.trial import Point, FunctionValue
    xd, fd = bench.declared(p)
    lo, hi = bench.bounds(p)
    fv = FunctionValue()
    fv = p.Calculate(Point(np.array(xd, dtype=np.double), []), fv)
    v = float(fv.value)
    if abs(v - fd) > 1e-4:
        viol.append({"mech": "optimum:value-at-declared-point", "key": key, "declared": fd, "calculate": v, "point": xd.tolist()})
    if len(xd) == len(lo):
        fv = p.Calculate(Point(0.5 * (lo + hi) + 0.25 * (hi - lo) * 0.37, []), fv)
    recheck_declared(p, key, viol, None, "after the holder returned by the first evaluation was reused", first=(xd, fd))
    return xd, fd


def recheck_declared(p, key, viol, obs, when="after the instance was used", first=None):
    """clause 1 again, read afresh from the instance after it has been evaluated many times - and, for every third instance, after a
    user solved it a little with the shipped console listener attached / with refinement (the declaration is what the solving tests
    and the console report compare with: it must still be the instance's optimum afterwards)"""
    if obs is not None and first is None:
        hk = int.from_bytes(__import__("hashlib").sha256(repr(list(key)).encode()).digest()[:2], "little")
        dim = p.numberOfFloatVariables
        if hk % 16 == 5 and dim <= 12:
            # a long-lived instance: 6000 further evaluations at distinct random points of the box before the declaration is read again
            x0, f0 = bench.declared(p)
            lo_, hi_ = bench.bounds(p)
            g = np.random.default_rng(hk)
            for y in lo_ + g.random((6000, dim)) * (hi_ - lo_):
                bench.evaluate(p, y)
            obs["rechecked_after_6000_more_evaluations"] = obs.get("rechecked_after_6000_more_evaluations", 0) + 1
            first = (x0, f0)
            when = "after 6000 further evaluations on the same object"
        elif hk % 3 == 0:
            x0, f0 = bench.declared(p)
            variant = 1 + hk // 3 % 3 + 4 * (hk // 9)
            if dim > 12:
                variant = 1 + 4 * (hk // 9)
            how = bench.use_instance(p, variant)
            obs["rechecked_after:" + how] = obs.get("rechecked_after:" + how, 0) + 1
            first = (x0, f0)
            when = "after " + how
    xd, fd = bench.declared(p)
    if first is not None and (not np.array_equal(np.asarray(first[0]), xd) or first[1] != fd):
        viol.append({"mech": "optimum:declaration-changed-by-use", "key": key, "point_before": np.asarray(first[0]).tolist(), "point_after": xd.tolist(),
                     "value_before": first[1], "value_after": fd, "when": when})
    v = float(bench.evaluate(p, xd))
    if obs is not None:
        obs["declared_rechecked_after_use"] = obs.get("declared_rechecked_after_use", 0) + 1
    if abs(v - fd) > 1e-4:
        viol.append({"mech": "optimum:value-at-declared-point", "key": key, "declared": fd, "calculate": v, "point": xd.tolist(), "when": when,
                     "declared_at_construction": None if first is None else first[1]})


def polish(p, x0, lo, hi, fid=None):
    from scipy.optimize import minimize
    f = lambda x: float(bench.evaluate(p, np.minimum(np.maximum(x, lo), hi)))
    r = minimize(f, x0, method="Nelder-Mead", bounds=list(zip(lo, hi)), options={"xatol": 1e-7, "fatol": 1e-10, "maxfev": 400 * len(lo)})
    x = np.minimum(np.maximum(r.x, lo), hi)
    return x, float(bench.evaluate(p, x))


def location_ok(p, xd, fd, lo, hi, best_v, viol, key, obs, extra_points=()):
    """a point within 0.5% of the side of x_decl whose value is within the tolerance of the best value found"""
    side = hi - lo
    w = 0.005 * side
    tol = tol_of(fd)
    obs["location_checked"] = obs.get("location_checked", 0) + 1
    if np.any(xd < lo - w) or np.any(xd > hi + w):
        # every global minimiser over the box lies in the box
        viol.append({"mech": "optimum:declared-point-not-near-a-global-minimiser", "key": key, "declared_point": xd.tolist(),
                     "what": "farther than 0.5% of the side from the box itself", "lower": lo.tolist(), "upper": hi.tolist()})
        return
    xd = np.minimum(np.maximum(xd, lo), hi)
    vdecl = float(bench.evaluate(p, xd))
    cand = vdecl
    if cand > best_v + tol:
        blo, bhi = np.maximum(lo, xd - w), np.minimum(hi, xd + w)
        x, v = polish(p, xd, blo, bhi)
        cand = min(cand, v)
        for e in extra_points:
            if np.all(np.abs(e - xd) <= w):
                cand = min(cand, float(bench.evaluate(p, e)))
    if cand > best_v + tol:
        viol.append({"mech": "optimum:declared-point-not-near-a-global-minimiser", "key": key, "declared_point": xd.tolist(),
                     "best_value_within_0.5pct": cand, "best_value_found": best_v})


def run_case(c):
    viol = []
    obs = {}
    keys = []
    kind = c["kind"]
    if kind == "1d":
        # every instance of the case is constructed first and stays alive while the others are examined: the declared optimum of
        # an instance must be its global minimum no matter which siblings were built after it
        pool = [bench.construct(tuple(key)) for key in c["keys"]]
        obs["instances_alive_together"] = len(pool)
        for key, p in zip(c["keys"], pool):
            lo, hi = bench.bounds(p)
            xd, fd = check_declared_value(p, key, viol)
            L = lip_bound(key)
            f = lambda x: float(bench.evaluate(p, [x]))
            ok, best_v, best_x, ev, wit = lipschitz.certify_no_lower(f, float(lo[0]), float(hi[0]), L, fd - tol_of(fd))
            obs["certified_instances"] = obs.get("certified_instances", 0) + int(ok)
            obs["bb_evaluations"] = obs.get("bb_evaluations", 0) + ev
            if wit is not None:
                viol.append({"mech": "optimum:lower-value-exists", "key": key, "declared": fd, "found": float(f(wit)), "at": wit})
            elif not ok:
                obs["uncertified"] = obs.get("uncertified", 0) + 1
            # true minimum within 1e-6 for the location clause
            lower, bv, bx, ev2 = lipschitz.minimise_certified(f, float(lo[0]), float(hi[0]), L, 1e-4)
            obs["bb_evaluations"] += ev2
            obs["max_decl_minus_true"] = max(obs.get("max_decl_minus_true", -1.0), fd - bv)
            location_ok(p, xd, fd, lo, hi, bv, viol, key, obs, extra_points=[np.array([bx])])
            recheck_declared(p, key, viol, obs)
            obs["instances"] = obs.get("instances", 0) + 1
            keys.append("|".join(map(str, key)))
        return {"violations": viol[:8], "obs": obs, "nontrivial": True, "keys": keys,
                "sample": {"kind": "1-D certified", "first": c["keys"][0], "n": len(c["keys"]), "bb_evaluations": obs.get("bb_evaluations")} if c["keys"][0][1] in (0, 1) else None}
    if kind == "grid2d":
        pool = [bench.construct(tuple(key)) for key in c["keys"]]
        if len(pool) > 1:
            pool = pool[::-1][::-1]
        other = bench.construct(("grishagin", 1 + (c["keys"][0][1] * 37) % 100))      # a later sibling of another number
        obs["instances_alive_together"] = len(pool) + 1
        for key, p in zip(c["keys"], pool):
            lo, hi = bench.bounds(p)
            xd, fd = check_declared_value(p, key, viol)
            g = c["g"]
            xs = np.linspace(lo[0], hi[0], g + 1)
            ys = np.linspace(lo[1], hi[1], g + 1)
            vals = np.array([[bench.evaluate(p, [x, y]) for y in ys] for x in xs])
            obs["grid_points"] = obs.get("grid_points", 0) + vals.size
            order = np.dstack(np.unravel_index(np.argsort(vals, axis=None)[:8], vals.shape))[0]
            best_v, best_x = float("inf"), None
            for (i, j) in order:
                x, v = polish(p, np.array([xs[i], ys[j]]), lo, hi)
                if v < best_v:
                    best_v, best_x = v, x
            x, v = polish(p, np.minimum(np.maximum(xd, lo), hi), lo, hi)
            if v < best_v:
                best_v, best_x = v, x
            if best_v < fd - tol_of(fd):
                viol.append({"mech": "optimum:lower-value-exists", "key": key, "declared": fd, "found": best_v, "at": best_x.tolist()})
            obs["max_decl_minus_true"] = max(obs.get("max_decl_minus_true", -1.0), fd - best_v)
            location_ok(p, xd, fd, lo, hi, best_v, viol, key, obs, extra_points=[best_x])
            recheck_declared(p, key, viol, obs)
            obs["instances"] = obs.get("instances", 0) + 1
            keys.append("|".join(map(str, key)))
        return {"violations": viol[:8], "obs": obs, "nontrivial": True, "keys": keys,
                "sample": {"kind": "grid + polish", "keys": c["keys"], "grid": c["g"]} if c["keys"][0][1] < 4 else None}
    if kind == "gkls":
        n = c["n"]
        gpool = {k: bench.construct(("gkls", n, k)) for k in c["ks"]}
        obs["instances_alive_together"] = len(gpool)
        for k in c["ks"]:
            key = ["gkls", n, k]
            rng = scenario.rng_for(c["seed"], "C10g", "%d-%d" % (n, k))
            p = gpool[k]
            lo, hi = bench.bounds(p)
            xd, fd = check_declared_value(p, key, viol)
            M = np.array(p.function.GKLS_minima.local_min, dtype=float)
            rho = np.array(p.function.GKLS_minima.rho, dtype=float)
            pts = [rng.uniform(-1, 1, n) for _ in range(c["pts"] // 2)]
            for i in range(10):
                pts.append(M[i].copy())
                for q in range(c["pts"] // 20):
                    u = rng.normal(size=n)
                    u /= np.sqrt((u ** 2).sum())
                    x = M[i] + rho[i] * rng.random() ** (1.0 / n) * u
                    if np.all(np.abs(x) <= 1):
                        pts.append(x)
            vals = np.array([bench.evaluate(p, x) for x in pts])
            obs["sample_points"] = obs.get("sample_points", 0) + len(pts)
            best_v, best_x = float("inf"), None
            for i in np.argsort(vals)[:4]:
                x, v = polish(p, pts[i], lo, hi)
                if v < best_v:
                    best_v, best_x = v, x
            if best_v < fd - tol_of(fd):
                viol.append({"mech": "optimum:lower-value-exists", "key": key, "declared": fd, "found": best_v, "at": best_x.tolist()})
            location_ok(p, xd, fd, lo, hi, best_v, viol, key, obs, extra_points=[best_x])
            recheck_declared(p, key, viol, obs)
            obs["instances"] = obs.get("instances", 0) + 1
            keys.append("|".join(map(str, key)))
        return {"violations": viol[:8], "obs": obs, "nontrivial": True, "keys": keys,
                "sample": {"kind": "GKLS sampling + polish", "n": n, "numbers": c["ks"]} if c["ks"][0] == 1 else None}
    if kind == "multi":
        key = c["key"]
        rng = scenario.rng_for(c["seed"], "C10m", str(key))
        p = bench.construct(tuple(key))
        # siblings of the same family built after it and alive during the examination
        sib = [bench.construct((key[0], v)) for v in ((1, 2, 3) if key[0] == "shekel4" else (2, 5, 12, 1)) if v != key[1]]
        obs["instances_alive_together"] = len(sib) + 1
        lo, hi = bench.bounds(p)
        xd, fd = check_declared_value(p, key, viol)
        n = len(lo)
        starts = [lo + rng.random(n) * (hi - lo) for _ in range(c["starts"])]
        starts.append(np.minimum(np.maximum(xd, lo), hi))
        if key[0] == "shekel4":
            import iOpt.problems.Shekel4.shekel4_generation as g
            starts += [np.array(a, dtype=float) for a in g.a]
        if key[0] == "rastrigin":
            for q in range(c["starts"]):
                starts.append(np.clip(np.round(rng.normal(0, 1.0, n)), -2, 1).astype(float))      # lattice of local minimisers
        vals = [bench.evaluate(p, s) for s in starts]
        obs["sample_points"] = obs.get("sample_points", 0) + len(starts)
        best_v, best_x = float("inf"), None
        for i in np.argsort(vals)[:12]:
            x, v = polish(p, starts[i], lo, hi)
            if v < best_v:
                best_v, best_x = v, x
        if min(vals) < best_v:
            best_v = float(min(vals))
            best_x = starts[int(np.argmin(vals))]
        if best_v < fd - tol_of(fd):
            viol.append({"mech": "optimum:lower-value-exists", "key": key, "declared": fd, "found": best_v, "at": best_x.tolist()})
        location_ok(p, xd, fd, lo, hi, best_v, viol, key, obs, extra_points=[best_x])
        recheck_declared(p, key, viol, obs)
        obs["instances"] = obs.get("instances", 0) + 1
        return {"violations": viol, "obs": obs, "nontrivial": True, "keys": ["|".join(map(str, key))],
                "sample": {"kind": "multistart + polish", "key": key, "starts": len(starts), "best_found": best_v, "declared": fd}}
    if kind == "highdim":
        key = c["key"]
        rng = scenario.rng_for(c["seed"], "C10h", str(key))
        p = bench.construct(tuple(key))
        lo, hi = bench.bounds(p)
        xd, fd = check_declared_value(p, key, viol)
        n = len(lo)
        tol = tol_of(fd)
        best_v, best_x = float("inf"), None
        # random points, points near the declared one, lattice points (Rastrigin's local minimisers sit near the integers)
        pts = [lo + rng.random(n) * (hi - lo) for _ in range(c["pts"] // 2)]
        pts += [np.clip(xd + rng.normal(0, 0.3, n) * (rng.random(n) < 0.1), lo, hi) for _ in range(c["pts"] // 4)]
        pts += [np.clip(np.round(rng.normal(0, 0.7, n)), np.ceil(lo), np.floor(hi)).astype(float) for _ in range(c["pts"] // 4)]
        for x in pts:
            v = float(bench.evaluate(p, x))
            if v < best_v:
                best_v, best_x = v, x
        # line searches through the declared point along every coordinate axis (both families are sums over coordinates)
        xs = np.minimum(np.maximum(xd, lo), hi)
        for i in range(n):
            for tval in np.linspace(lo[i], hi[i], 81):
                x = xs.copy()
                x[i] = tval
                v = float(bench.evaluate(p, x))
                if v < best_v:
                    best_v, best_x = v, x
        obs["sample_points"] = obs.get("sample_points", 0) + len(pts) + 81 * n
        if best_v < fd - tol:
            viol.append({"mech": "optimum:lower-value-exists", "key": key, "declared": fd, "found": best_v, "at": [float(v) for v in best_x][:8]})
        side = hi - lo
        if np.any(xd < lo - 0.005 * side) or np.any(xd > hi + 0.005 * side):
            viol.append({"mech": "optimum:declared-point-not-near-a-global-minimiser", "key": key, "what": "outside the box"})
        recheck_declared(p, key, viol, obs)
        obs["high_dimensional_instances"] = obs.get("high_dimensional_instances", 0) + 1
        obs["max_dimension"] = n
        return {"violations": viol, "obs": obs, "nontrivial": True, "keys": ["|".join(map(str, key))],
                "sample": {"kind": "high dimension: sampling + axis line searches", "key": key, "best_found": best_v, "declared": fd} if key[1] in (32, 128) else None}
    if kind == "strongin":
        from scipy.optimize import minimize
        key = ["stronginc3"]
        p = bench.construct(("stronginc3",))
        lo, hi = bench.bounds(p)
        xd, fd = check_declared_value(p, key, viol)
        cons = lambda x: np.array([bench.evaluate(p, x, i) for i in range(3)])
        gd = cons(xd)
        obs["max_constraint_at_declared"] = float(gd.max())
        if np.any(gd > 1e-2):
            viol.append({"mech": "optimum:declared-point-infeasible", "constraints": gd.tolist()})
        g = c["g"]
        xs = np.linspace(lo[0], hi[0], g + 1)
        ys = np.linspace(lo[1], hi[1], g + 1)
        feas = []
        for x in xs:
            for y in ys:
                if np.all(cons([x, y]) <= 0):
                    feas.append((float(bench.evaluate(p, [x, y])), x, y))
        obs["feasible_grid_points"] = len(feas)
        obs["grid_points"] = (g + 1) ** 2
        feas.sort()
        best_v, best_x = (feas[0][0], np.array(feas[0][1:])) if feas else (float("inf"), None)
        for v0, x, y in feas[:10] + [(0, xd[0], xd[1])]:
            r = minimize(lambda z: float(bench.evaluate(p, z)), np.array([x, y]), method="SLSQP", bounds=list(zip(lo, hi)),
                         constraints=[{"type": "ineq", "fun": lambda z, i=i: -float(bench.evaluate(p, z, i))} for i in range(3)],
                         options={"ftol": 1e-12, "maxiter": 200})
            z = np.minimum(np.maximum(r.x, lo), hi)
            if np.all(cons(z) <= 1e-9) and float(bench.evaluate(p, z)) < best_v:
                best_v, best_x = float(bench.evaluate(p, z)), z
        if best_v < fd - tol_of(fd):
            viol.append({"mech": "optimum:lower-value-exists", "key": key, "declared": fd, "found": best_v, "at": best_x.tolist(), "what": "feasible point"})
        side = hi - lo
        if best_x is not None and np.any(np.abs(best_x - xd) > 0.005 * side):
            # another feasible minimiser near the declared point with a value within tolerance?
            near = [v for v, x, y in feas if abs(x - xd[0]) <= 0.005 * side[0] and abs(y - xd[1]) <= 0.005 * side[1]]
            if not near or min(near) > best_v + tol_of(fd):
                viol.append({"mech": "optimum:declared-point-not-near-a-global-minimiser", "key": key, "declared_point": xd.tolist(), "best_found_at": best_x.tolist(),
                             "best_value_found": best_v})
        obs["location_checked"] = 1
        recheck_declared(p, key, viol, obs)
        obs["instances"] = 1
        obs["strongin_gap"] = fd - best_v
        return {"violations": viol, "obs": obs, "nontrivial": True, "keys": ["stronginc3"],
                "sample": {"kind": "feasible grid + SLSQP", "grid": g, "feasible_points": len(feas), "best_found": best_v, "best_at": None if best_x is None else best_x.tolist(), "declared": fd}}
    raise ValueError(kind)


def finalize(obs, tier, stats):
    need = 2002 + 400 + 3 + 22 + 1 + 100
    if obs.get("instances", 0) != need:
        return "only %d of %d instances examined" % (obs.get("instances", 0), need), {}
    if obs.get("high_dimensional_instances", 0) != 2 * len(HIGH_DIMS):
        return "high-dimensional Rastrigin / XSquared instances not all examined", {}
    if not obs.get("instances_alive_together"):
        return "instances were never examined while siblings built later were alive", {}
    if obs.get("certified_instances", 0) < 2002:
        return "only %d of 2002 one-dimensional instances certified" % obs.get("certified_instances", 0), {}
    return None, {"certified_one_dimensional_instances": obs.get("certified_instances", 0)}
