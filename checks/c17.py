"""C17 - evolvent queries are pure."""
import numpy as np

from vlib import scenario, evolvent_model as em
from iOpt.evolvent.evolvent import Evolvent

LEVEL = "exploration"
RULE = ("random interleaved sequences of GetImage / GetInverseImage / GetPreimages / SetBounds on one Evolvent object (N=1..5, m=2..12 and up to N*m=50; "
        "arguments as arrays, lists, tuples, integer-typed values, x as float / np.float64 / int 0 and 1); every result is compared bitwise with the same "
        "single query put to a fresh object with the current bounds and density, every argument is compared with a copy taken before the call (and again after later operations), boxes include those on which the affine map degenerates ([-1/2,1/2]^N, [0,1]^N, [-1,1]^N, per-axis mixtures), and every "
        "array returned earlier is re-compared with its copy after every later operation. Non-trivial: sequence with >= 20 operations including both "
        "directions; distinct = (N, m, sequence index)."
       ' Every sixth sequence queries Solver.evolvent while other Solvers with the same N and m are built and stepped; a quarter of the SetBounds operations move to a nearby box.')
ASSUMPTIONS = ["a fresh Evolvent object answering a single query is the reference for 'depends only on the argument, bounds and density'"]
SIZES = {"quick": 800, "thorough": 25000}


def cases(tier, seed):
    out = []
    for i in range(SIZES[tier]):
        rng = scenario.rng_for(seed, "C17", i)
        N = int(rng.integers(1, 6))
        if rng.random() < 0.7:
            m = int(rng.integers(2, 13))
            if N * m > 50:
                m = 50 // N
        else:
            m = int(rng.integers(1, 50 // N + 1))
        if i % 9 == 4:
            m = int(rng.integers(50 // N + 1, 64 // N + 1))      # "every N and m": densities beyond N*m = 50 too (purity does not need exact digits)
        out.append({"N": N, "m": m, "i": i, "seed": seed, "ops": int(rng.integers(40, 160 if tier == "quick" else 400))})
    return out


def same(a, b):
    a = np.asarray(a)
    b = np.asarray(b)
    return a.shape == b.shape and bool(np.all((a == b) | (np.isnan(a.astype(float)) & np.isnan(b.astype(float)))))


def run_case(c):
    N, m = c["N"], c["m"]
    rng = scenario.rng_for(c["seed"], "C17run", c["i"])
    lo, hi, kind = scenario.gen_box(rng, N)
    viol = []
    obs = {"sequences": 1, "box_" + kind: 1}
    ctor_args = None
    via_solver = False
    if c["i"] % 2:
        # the object is constructed from the caller's own float64 arrays: they must stay untouched whatever is done to the object later
        c_lo, c_hi = np.array(lo, dtype=np.double), np.array(hi, dtype=np.double)
        ev = Evolvent(c_lo, c_hi, N, m)
        ctor_args = (c_lo, c_lo.copy(), c_hi, c_hi.copy())
        # ... and a second object built from the same arrays must keep answering for ITS box
        twin = Evolvent(c_lo, c_hi, N, m)
        twin_box = (list(lo), list(hi))
        obs["constructed_from_caller_arrays"] = 1
    elif c["i"] % 6 == 2 and N * m <= 50:
        # the object is the public Solver.evolvent of a Solver configured with this box and density; other Solvers with the same N and m
        # (over other boxes) are built and stepped while it is being queried
        ev = em.solver_evolvent(lo, hi, N, m, rng, obs)
        twin = None
        via_solver = True
    else:
        ev = Evolvent(lo, hi, N, m)
        twin = None
    kept = []          # (returned array reference, copy at return time, description)
    kept_args = []     # (array the caller passed in, copy at call time, description): must never change later either
    last_inverse = None
    workbuf = None
    bbuf = None
    cnt = {"image": 0, "inverse": 0, "preimages": 0, "setbounds": 0}

    def fresh():
        return Evolvent(lo, hi, N, m)

    def point_in_box(intlike):
        lo_a = np.array(lo, dtype=float)
        hi_a = np.array(hi, dtype=float)
        if intlike:
            ilo, ihi = np.ceil(lo_a).astype(int), np.floor(hi_a).astype(int)
            if np.all(ilo <= ihi):
                return [int(rng.integers(a, b + 1)) for a, b in zip(ilo, ihi)], True
        return (lo_a + rng.random(N) * (hi_a - lo_a)), False

    for k in range(c["ops"]):
        if via_solver and rng.random() < 0.04:
            olo, ohi, _ = scenario.gen_box(rng, N)
            em.solver_evolvent(olo, ohi, N, m, rng, obs)
            obs["solvers_built_while_a_solver_evolvent_was_queried"] = obs.get("solvers_built_while_a_solver_evolvent_was_queried", 0) + 1
        u = rng.random()
        if u < 0.45:
            ch = rng.random()
            if ch < 0.1:
                x = int(rng.integers(0, 2))
            elif ch < 0.25 and last_inverse is not None:
                x = last_inverse
                obs["image_of_previous_inverse"] = obs.get("image_of_previous_inverse", 0) + 1
            elif ch < 0.3:
                x = np.float64(rng.random())
            elif ch < 0.4:
                x = float(rng.choice([0.0, 1.0, 0.5, float(np.nextafter(1.0, 0))]))
            else:
                x = float(rng.random())
            got = ev.GetImage(x)
            ref = fresh().GetImage(x)
            cnt["image"] += 1
            if not same(got, ref):
                if len(viol) < 5:
                    viol.append({"mech": "image-depends-on-history", "op": k, "x": float(x), "got": np.asarray(got).tolist(), "fresh": ref.tolist(),
                                 "lower": lo, "upper": hi, "N": N, "m": m})
            kept.append((got, np.array(got, copy=True), "GetImage(%r) at op %d" % (float(x), k)))
        elif u < 0.9:
            y, isint = point_in_box(rng.random() < 0.3)
            how = int(rng.integers(4))
            if kept and rng.random() < 0.35:
                # round trip: the argument is an array this object returned earlier (most often the latest one),
                # passed as the very same object, as a copy, or as a list
                src = kept[-1] if rng.random() < 0.7 else kept[int(rng.integers(len(kept)))]
                if np.asarray(src[1]).shape == (N,) and bool(np.all(np.asarray(src[1]) >= np.array(lo, dtype=float))) \
                        and bool(np.all(np.asarray(src[1]) <= np.array(hi, dtype=float))):
                    y, isint = np.array(src[1], dtype=float), False
                    how = int(rng.integers(3))
                    obs["roundtrip_args"] = obs.get("roundtrip_args", 0) + 1
                    if how == 0:
                        how = 9          # the same object
            if not isint and how != 9 and rng.random() < 0.25:
                # the caller's own work buffer, refilled in place and passed again and again
                if workbuf is None:
                    workbuf = np.zeros(N, dtype=np.double)
                workbuf[:] = np.asarray(y, dtype=np.double)
                how = 8
                obs["work_buffer_args"] = obs.get("work_buffer_args", 0) + 1
            if how == 8:
                arg = workbuf
            elif isint:
                arg = y if how % 2 == 0 else np.array(y)
                obs["integer_typed_args"] = obs.get("integer_typed_args", 0) + 1
            elif how == 9:
                arg = src[0]
            elif how == 0:
                arg = np.array(y, dtype=np.double)
            elif how == 1:
                arg = [float(v) for v in y]
            elif how == 2:
                arg = tuple(float(v) for v in y)
            else:
                arg = np.array(y, dtype=np.double)
            snap = np.array(arg, copy=True) if isinstance(arg, np.ndarray) else list(arg)
            which = "inverse" if rng.random() < 0.6 else "preimages"
            got = ev.GetInverseImage(arg) if which == "inverse" else ev.GetPreimages(arg)
            f = fresh()
            ref = f.GetInverseImage(snap if not isinstance(snap, np.ndarray) else snap.copy()) if which == "inverse" else \
                f.GetPreimages(snap if not isinstance(snap, np.ndarray) else snap.copy())
            cnt[which] += 1
            last_inverse = got
            if not (float(got) == float(ref)):
                if len(viol) < 5:
                    viol.append({"mech": "inverse-depends-on-history", "op": k, "y": [float(v) for v in y], "got": float(got), "fresh": float(ref),
                                 "lower": lo, "upper": hi, "N": N, "m": m})
            if isinstance(arg, np.ndarray) and how not in (8, 9):
                kept_args.append((arg, np.array(arg, copy=True), "%s argument at op %d" % (which, k)))
            changed = (not same(arg, snap)) if isinstance(arg, np.ndarray) else (list(arg) != list(snap))
            if changed:
                if len(viol) < 5:
                    viol.append({"mech": "argument-modified", "op": k, "before": np.asarray(snap).tolist(), "after": np.asarray(arg).tolist()})
        else:
            if rng.random() < 0.25:
                lo, hi, kind = scenario.nearby_box(rng, lo, hi)      # the next box is a slight correction of the current one
            else:
                lo, hi, kind = scenario.gen_box(rng, N)
            last_inverse = None
            a_lo = np.array(lo, dtype=float) if rng.random() < 0.5 else lo
            a_hi = np.array(hi, dtype=float) if rng.random() < 0.5 else hi
            if rng.random() < 0.4:
                # the caller keeps two bound buffers (arrays or lists), refills them in place and hands the same objects over again
                if bbuf is None:
                    bbuf = (np.zeros(N), np.zeros(N)) if rng.random() < 0.5 else ([0.0] * N, [0.0] * N)
                    if rng.random() < 0.5:
                        # the object was constructed from these very buffers
                        bbuf[0][:] = [float(v) for v in ev.lowerBoundOfFloatVariables]
                        bbuf[1][:] = [float(v) for v in ev.upperBoundOfFloatVariables]
                        ev = Evolvent(bbuf[0], bbuf[1], N, m)
                        obs["constructed_from_reused_buffers"] = obs.get("constructed_from_reused_buffers", 0) + 1
                bbuf[0][:] = [float(v) for v in lo]
                bbuf[1][:] = [float(v) for v in hi]
                a_lo, a_hi = bbuf
                obs["setbounds_with_reused_objects"] = obs.get("setbounds_with_reused_objects", 0) + 1
            s_lo, s_hi = np.array(a_lo, copy=True), np.array(a_hi, copy=True)
            ev.SetBounds(a_lo, a_hi)
            cnt["setbounds"] += 1
            if not same(a_lo, s_lo) or not same(a_hi, s_hi):
                viol.append({"mech": "argument-modified", "op": k, "what": "SetBounds"})
            for a, what in ((a_lo, "lower"), (a_hi, "upper")):
                if isinstance(a, np.ndarray) and (bbuf is None or (a is not bbuf[0] and a is not bbuf[1])):
                    kept_args.append((a, np.array(a, copy=True), "SetBounds %s argument at op %d" % (what, k)))
            obs["box_" + kind] = obs.get("box_" + kind, 0) + 1
        # arrays returned earlier must not change
        for arr, cp, desc in kept[-40:]:
            if not same(arr, cp):
                if len(viol) < 5:
                    viol.append({"mech": "returned-array-changed-later", "op": k, "which": desc, "was": cp.tolist(), "now": np.asarray(arr).tolist()})
                kept = [t for t in kept if t[0] is not arr]
                break
        if k == c["ops"] - 1 or k % 7 == 0:
            for arr, cp, desc in kept_args[-30:]:
                if not same(arr, cp):
                    if len(viol) < 5:
                        viol.append({"mech": "argument-modified", "op": k, "which": desc, "was": cp.tolist(), "now": np.asarray(arr).tolist(),
                                     "what": "an array passed in earlier was changed by a later operation", "lower": lo, "upper": hi})
                    kept_args = [t for t in kept_args if t[0] is not arr]
                    break
    if ctor_args is not None:
        if not same(ctor_args[0], ctor_args[1]) or not same(ctor_args[2], ctor_args[3]):
            viol.append({"mech": "argument-modified", "what": "arrays handed to the constructor were changed by later operations on the object",
                         "lower_was": ctor_args[1].tolist(), "lower_now": ctor_args[0].tolist()})
        xq = float(rng.random())
        got, ref = twin.GetImage(xq), Evolvent(twin_box[0], twin_box[1], N, m).GetImage(xq)
        if not same(got, ref):
            viol.append({"mech": "image-depends-on-history", "what": "a second object built from the same bound arrays changed its answers after operations on the first",
                         "x": xq, "got": np.asarray(got).tolist(), "fresh": ref.tolist()})
    for k2, v in cnt.items():
        obs["ops_" + k2] = v
    obs["kept_argument_arrays_rechecked"] = len(kept_args)
    obs["kept_arrays_rechecked"] = len(kept)
    nt = c["ops"] >= 20 and cnt["image"] > 0 and (cnt["inverse"] + cnt["preimages"]) > 0
    return {"violations": viol, "obs": obs, "nontrivial": nt, "key": "%d|%d|%d" % (N, m, c["i"]) if nt else None,
            "sample": {"N": N, "m": m, "ops": c["ops"], "counts": dict(cnt)} if c["i"] < 3 else None}


def finalize(obs, tier, stats):
    for k in ("ops_image", "ops_inverse", "ops_preimages", "ops_setbounds", "integer_typed_args", "roundtrip_args", "image_of_previous_inverse", "box_special", "box_unit", "box_far", "box_nearby", "kept_argument_arrays_rechecked", "work_buffer_args", "setbounds_with_reused_objects", "constructed_from_reused_buffers", "constructed_from_caller_arrays", "evolvents_built_by_a_solver", "solvers_built_while_a_solver_evolvent_was_queried"):
        if not obs.get(k):
            return "operation class %s never exercised" % k, {}
    return None, {}
