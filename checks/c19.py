"""C19 - the search-data containers act as an ordered set plus max-priority queues."""
import itertools

import numpy as np

from vlib import scenario
from vlib.containers_model import QueueModel, DualQueueModel, OrderedModel, Ambiguous
from iOpt.method.search_data import SearchData, SearchDataDualQueue, SearchDataItem, CharacteristicsQueue
from iOpt.trial import Point

LEVEL = "exploration"
RULE = ("ALL operation histories of length <= 3 (quick) / <= 4 (thorough) over an alphabet of 21 operations (insert at 3 coordinates x 2 priorities x with/without right-neighbour "
        "hint, best-interval request, queue clear, refill, covering-interval lookup x 3, rewrite of a characteristic x 2) on SearchData and SearchDataDualQueue with queue "
        "bounds None/1/2, plus seeded random histories of up to 200 operations with repeated and equal priorities, characteristics rewritten between operations and "
        "bounds None/1/2/3/5/50, plus histories on CharacteristicsQueue alone. After every operation the real container is compared with a reference model (sorted list + "
        "nondeterministic priority-queue specification that keeps every admissible tie resolution). Preconditions of the API are respected. Non-trivial: a history with "
        ">= 1 insert and >= 1 best-interval request or lookup; distinct = (class, bound, history)."
       ' Large containers (1100..2600 items, coordinates in clusters 1e-12..1e-7 apart) are checked against a bisect model.')
ASSUMPTIONS = ["operations outside the API preconditions are not generated (empty container, coordinate outside (0,1) or already present, wrong hint)",
               "ties between equal priorities may be resolved either way; a history whose admissible-state set exceeds 256 is abandoned as inconclusive"]
CHUNK = 1


class DummyProblem:
    numberOfFloatVariables = 1
    numberOfObjectives = 1
    numberOfConstraints = 0


def alphabet():
    ops = []
    for x in (0.25, 0.5, 0.75):
        for pr in (1.0, 2.0):
            for hint in (True, False):
                ops.append(("ins", x, pr, hint))
    ops += [("best",), ("clear",), ("refill",), ("find", 0.1), ("find", 0.5), ("find", 0.9), ("rewrite", 0, 3.0), ("rewrite", 1, 0.5),
            ("rewrite", 0, 0.9999995)]      # a near-tie of the queued priority 1.0: the queued entry is stale all the same
    if True:
        ops.append(("bestlocal",))
    return ops


def cases(tier, seed):
    out = []
    L = 3 if tier == "quick" else 4
    ops = alphabet()
    confs = [(cls, ml) for cls in ("SearchData", "SearchDataDualQueue") for ml in (None, 1, 2)]
    # exhaustive: split by first operation
    for cls, ml in confs:
        for first in range(len(ops)):
            out.append({"kind": "exh", "cls": cls, "maxlen": ml, "first": first, "L": L})
    nr = 240 if tier == "quick" else 15000
    per = 20 if tier == "quick" else 32
    for i in range(nr):
        out.append({"kind": "random", "i": i, "seed": seed, "n": per})
    for i in range(16 if tier == "quick" else 100):
        out.append({"kind": "cq", "i": i, "seed": seed, "n": 20})
    # online checkers at hooks (vlib/container_hooks.py) while the REAL Solver drives the containers: generated scenarios,
    # the repository's example scripts and its own container / solving tests
    for i in range(48 if tier == "quick" else 1200):
        out.append({"kind": "hooked-solver", "i": i, "seed": seed, "tier": tier})
    # large containers (1100..2600 items) whose coordinates come in tight clusters (neighbours 1e-12..1e-7 apart) beside spread ones
    for i in range(6 if tier == "quick" else 80):
        out.append({"kind": "large", "i": i, "seed": seed})
    from vlib import ambient
    for c in ambient.ambient_cases(tier):
        out.append({"kind": "hooked-ambient", "amb": c})
    out.append({"kind": "hooked-ambient", "amb": {"ambient": "unittest", "path": "test/iOpt/method/test_search_data.py", "filter": None}})
    return out


class Harness:
    """Runs one history on a real container and on the model, comparing after every operation."""

    def __init__(self, cls, maxlen):
        self.cls = cls
        self.dual = cls == "SearchDataDualQueue"
        self.real = (SearchDataDualQueue if self.dual else SearchData)(DummyProblem(), maxlen)
        self.maxlen = maxlen
        self.items = []            # real items by id
        self.R = {}
        self.RL = {}
        self.order = OrderedModel()
        self.q = DualQueueModel(maxlen)
        self.viol = []
        self.n_ops = 0
        self.n_best = 0
        self.n_find = 0
        self.n_ins = 0
        self.n_stale_skips = 0
        self._new_item(0.0, -1e9, -1e9)
        self._new_item(1.0, 0.0, 0.0)
        self.real.InsertFirstDataItem(self.items[0], self.items[1])
        self.order.insert(0.0, 0)
        self.order.insert(1.0, 1)
        self.compare("InsertFirstDataItem")

    def _new_item(self, x, r, rl):
        it = SearchDataItem(Point([x], []), x)
        it.globalR = r
        it.localR = rl
        iid = len(self.items)
        self.items.append(it)
        self.R[iid] = r
        self.RL[iid] = rl
        return iid

    def v(self, kind, **d):
        if len(self.viol) < 4:
            self.viol.append(dict(d, mech="containers:" + kind, cls=self.cls, maxlen=self.maxlen))

    def idof(self, it):
        for k, x in enumerate(self.items):
            if x is it:
                return k
        return None

    def compare(self, after):
        real = []
        guard = 0
        try:
            for it in self.real:
                real.append(it)
                guard += 1
                if guard > len(self.items) + 5:
                    self.v("traversal-does-not-end", after=after)
                    return
        except Exception as e:
            self.v("traversal-raised", after=after, exc=repr(e))
            return
        ids = [self.idof(it) for it in real]
        if ids != self.order.ids:
            self.v("traversal-order", after=after, real=[None if it is None else float(it.GetX()) for it in real], model=self.order.xs)
            return
        for k, it in enumerate(real):
            l, r = it.GetLeft(), it.GetRight()
            if l is not (real[k - 1] if k else None) or r is not (real[k + 1] if k + 1 < len(real) else None):
                self.v("links", after=after, x=float(it.GetX()))
                return
        if self.real.GetCount() != len(self.order.ids):
            self.v("count", after=after, real=self.real.GetCount(), model=len(self.order.ids))

    def applicable(self, op):
        if op[0] == "ins":
            return op[1] not in self.order.xs
        if op[0] == "rewrite":
            return op[1] + 2 < len(self.items)
        if op[0] == "bestlocal":
            return self.dual
        return True

    def apply(self, op):
        self.n_ops += 1
        k = op[0]
        if k == "ins":
            x, pr, hint = op[1], op[2], op[3]
            prl = op[4] if len(op) > 4 else -pr
            iid = self._new_item(x, pr, prl)
            right = self.order.right_of(x)
            self.order.insert(x, iid)
            if hint:
                self.real.InsertDataItem(self.items[iid], self.items[right])
            else:
                self.real.InsertDataItem(self.items[iid])
            self.q.insert(0, pr, iid)
            if self.dual:
                self.q.insert(1, prl, iid)
            if hint:
                self.q.insert(0, self.R[right], right)
                if self.dual:
                    self.q.insert(1, self.RL[right], right)
            self.n_ins += 1
            if self.real.GetLastItem() is not self.items[iid]:
                self.v("last-item", x=x)
        elif k in ("best", "bestlocal"):
            loc = k == "bestlocal"
            cur = self.RL if loc else self.R
            got = self.real.GetDataItemWithMaxLocalR() if loc else self.real.GetDataItemWithMaxGlobalR()
            gid = self.idof(got)
            self.n_best += 1
            if gid is None:
                self.v("best-returned-unknown-item", op=k)
                return
            before = set(self.q.states)
            if self.dual:
                ok = self.q.pop_best_current(1 if loc else 0, gid, self.order.ids, self.R, self.RL)
                kind = "best-not-maximal-among-current"
            else:
                ok = self.q.pop_best_plain(gid, self.order.ids, self.R)
                kind = "best-not-maximal"
            if not ok:
                self.v(kind, op=k, returned_x=float(got.GetX()), returned_current_characteristic=cur[gid],
                       admissible_queue_states=[[list(map(list, part)) for part in st] for st in list(before)[:3]],
                       current={i: cur[i] for i in self.order.ids})
                self.q.states = before
        elif k == "clear":
            self.real.ClearQueue()
            self.q.clear()
        elif k == "refill":
            self.real.RefillQueue()
            self.q.refill(self.order.ids, self.R, self.RL)
            if not self.dual:
                self.q.states = {(g, ()) for g, l in self.q.states}
        elif k == "find":
            got = self.real.FindDataItemByOneDimensionalPoint(op[1])
            exp = self.order.right_of(op[1])
            self.n_find += 1
            gid = None if got is None else self.idof(got)
            if gid != exp:
                self.v("covering-interval-lookup", x=op[1], returned=None if got is None else float(got.GetX()),
                       expected=None if exp is None else self.order.xs[self.order.ids.index(exp)])
        elif k == "rewrite":
            iid = op[1] + 2
            self.items[iid].globalR = op[2]
            self.R[iid] = op[2]
            if len(op) > 3:
                self.items[iid].localR = op[3]
                self.RL[iid] = op[3]
        self.compare(str(op))


def run_history(cls, ml, hist):
    h = Harness(cls, ml)
    applied = []
    try:
        for op in hist:
            if not h.applicable(op):
                return None, h
            h.apply(op)
            applied.append(op)
            if h.viol:
                break
    except Ambiguous:
        return "ambiguous", h
    return applied, h


def run_hooked(c):
    from vlib import container_hooks as ch, record, ambient
    viol, obs, keys = [], {}, []
    if c["kind"] == "hooked-solver":
        rng = scenario.rng_for(c["seed"], "C19h", c["i"])
        scn = scenario.gen_scenario(rng, max_iters=300 if c["tier"] == "quick" else 1500)
        u = rng.random()
        if u < 0.3:
            scn["pattern"] = [["iter", int(v)] for v in rng.integers(1, 20, int(rng.integers(1, 8)))] + [["solve"]]
        elif u < 0.5:
            scn["pattern"] = [["solve"], ["set", "itersLimit", scn["iters"] + int(rng.integers(5, 200))], ["solve"]]
        elif u < 0.6:
            scn["pattern"] = [["iter", 5], ["local", 9], ["iter", 30], ["solve"]]
        with ch.enabled():
            t = record.run_solver(scn, listener=False)
            if not t.fp_exhausted:
                ch.full_traversal(t.solver.searchData, "end of run")
            viol = [dict(v, scenario=scenario.short(scn)) for v in ch.VIOL]
            obs = dict(ch.STATS)
        obs["hooked_solver_runs"] = 1
        keys = ["hooked|%d|%d" % (c["i"], obs.get("hook_inserts", 0))]
        sample = dict(scenario.short(scn), hooks=dict(obs)) if c["i"] < 2 else None
    else:
        a = c["amb"]
        import os
        path = os.path.join(os.environ.get("IOPT_REPO", "/repo"), a["path"])
        with ch.enabled():
            if a["ambient"] == "script":
                recs, out, err = ambient.run_script(path)
            else:
                recs, out, res = ambient.run_unittest(path, a.get("filter"))
            viol = [dict(v, workload=a["path"]) for v in ch.VIOL]
            obs = dict(ch.STATS)
        obs["hooked_ambient_workloads"] = 1
        obs["hooked_ambient_kinds"] = [a["path"]]
        keys = ["hooked-ambient|%s|%d" % (a["path"], obs.get("hook_inserts", 0) + obs.get("hook_queue_inserts", 0))]
        sample = {"kind": "hooked ambient workload", "workload": a["path"], "hooks": {k: v for k, v in obs.items() if isinstance(v, int)}}
    return {"violations": viol, "obs": obs, "nontrivial": obs.get("hook_queue_pops", 0) + obs.get("hook_inserts", 0) > 0, "keys": keys, "sample": sample}


def run_case(c):
    if c["kind"].startswith("hooked"):
        return run_hooked(c)
    viol = []
    obs = {}
    keys = []
    if c["kind"] == "exh":
        ops = alphabet()
        cls, ml, L = c["cls"], c["maxlen"], c["L"]
        n = 0
        for length in range(1, L + 1):
            for tail in itertools.product(range(len(ops)), repeat=length - 1):
                hist = [ops[c["first"]]] + [ops[t] for t in tail]
                res, h = run_history(cls, ml, hist)
                if res is None:
                    continue
                if res == "ambiguous":
                    obs["ambiguous"] = obs.get("ambiguous", 0) + 1
                    continue
                n += 1
                obs["ops"] = obs.get("ops", 0) + h.n_ops
                obs["best_requests"] = obs.get("best_requests", 0) + h.n_best
                obs["lookups"] = obs.get("lookups", 0) + h.n_find
                if h.n_ins and (h.n_best or h.n_find):
                    keys.append("%s|%s|%s" % (cls, ml, [ops.index(o) for o in hist]))
                for v in h.viol:
                    if len(viol) < 5:
                        viol.append(dict(v, history=[list(o) for o in hist]))
        obs["histories_exhaustive"] = n
        obs["max_history_len"] = L
        return {"violations": viol, "obs": obs, "nontrivial": True, "keys": keys,
                "sample": {"kind": "exhaustive", "class": cls, "maxlen": ml, "first_op": list(ops[c["first"]]), "max_len": L, "histories": n} if c["first"] == 0 else None}
    if c["kind"] == "large":
        import bisect
        rng = scenario.rng_for(c["seed"], "C19L", c["i"])
        dual = c["i"] % 2 == 1
        sd = (SearchDataDualQueue if dual else SearchData)(DummyProblem(), None if c["i"] % 3 else 50)
        first, last = SearchDataItem(Point([0.0], []), 0.0), SearchDataItem(Point([1.0], []), 1.0)
        first.globalR = first.localR = -1e9
        last.globalR = last.localR = 0.0
        sd.InsertFirstDataItem(first, last)
        xs, its = [0.0, 1.0], [first, last]
        target = int(rng.integers(1100, 2600))
        centres = [float(rng.random()) for _ in range(6)]
        steps = [float(10 ** rng.uniform(-12, -7)) for _ in range(6)]
        nfind = nins = nhint = 0

        def lookup(x):
            nonlocal nfind
            res = sd.FindDataItemByOneDimensionalPoint(x)
            nfind += 1
            k = bisect.bisect_right(xs, x)
            exp = its[k] if k < len(its) else None
            if res is not exp and len(viol) < 4:
                viol.append({"mech": "containers:covering-interval-lookup", "x": x, "returned": None if res is None else float(res.GetX()),
                             "expected": None if exp is None else float(exp.GetX()), "items": len(xs), "cls": type(sd).__name__})
            return exp
        while len(xs) < target and not viol:
            u = rng.random()
            if u < 0.55:
                q = int(rng.integers(6))
                x = centres[q] + steps[q] * float(rng.integers(-400, 400))
            else:
                x = float(rng.random())
            if not (0.0 < x < 1.0):
                continue
            k = bisect.bisect_left(xs, x)
            if k < len(xs) and xs[k] == x:
                lookup(x)
                continue
            if rng.random() < 0.3:
                lookup(x)
            it = SearchDataItem(Point([x], []), x)
            it.globalR = float(rng.normal())
            it.localR = float(rng.normal())
            hint = rng.random() < 0.3
            sd.InsertDataItem(it, its[k] if hint else None)
            nins += 1
            nhint += int(hint)
            xs.insert(k, x)
            its.insert(k, it)
            l, r = it.GetLeft(), it.GetRight()
            if (l is not its[k - 1] or r is not its[k + 1] or l.GetRight() is not it or r.GetLeft() is not it) and len(viol) < 4:
                viol.append({"mech": "containers:insert-neighbours", "x": x, "left": None if l is None else float(l.GetX()), "right": None if r is None else float(r.GetX()),
                             "expected_left": xs[k - 1], "expected_right": xs[k + 1], "items": len(xs), "hint": bool(hint), "cls": type(sd).__name__})
            if len(xs) % 256 == 0 or len(xs) == target:
                trav = [t for t in sd]
                if (len(trav) != len(its) or any(a is not b for a, b in zip(trav, its))) and len(viol) < 4:
                    viol.append({"mech": "containers:traversal-order", "items": len(xs), "traversed": len(trav), "cls": type(sd).__name__})
                if sd.GetCount() != len(its) and len(viol) < 4:
                    viol.append({"mech": "containers:count", "GetCount": sd.GetCount(), "items": len(its)})
        obs.update({"large_histories": 1, "large_items_max": len(xs), "large_inserts": nins, "large_hinted_inserts": nhint, "large_lookups": nfind,
                    "large_min_neighbour_gap": float(np.min(np.diff(xs)))})
        return {"violations": viol, "obs": obs, "nontrivial": True, "keys": ["large|%d" % c["i"]],
                "sample": {"kind": "large clustered container", "items": len(xs), "lookups": nfind, "class": type(sd).__name__} if c["i"] < 2 else None}
    if c["kind"] == "random":
        rng = scenario.rng_for(c["seed"], "C19r", c["i"])
        for q in range(c["n"]):
            cls = "SearchDataDualQueue" if rng.random() < 0.5 else "SearchData"
            ml = [None, None, 1, 2, 3, 5, 50][int(rng.integers(7))]
            h = Harness(cls, ml)
            nops = int(rng.integers(5, 200 if q % 4 == 0 else 60))
            prios = [float(v) for v in rng.integers(-3, 6, 6)] + [float(v) for v in rng.normal(size=8)]
            if q % 3 == 0:
                # near-ties: characteristics that differ from a queued priority in the 6th..12th digit, and tiny magnitudes
                base = list(prios[:6])
                prios += [b * (1.0 + float(d)) for b in base[:3] for d in (1e-6, -1e-6, 3e-12)]
                prios += [b + float(d) for b in base[3:] for d in (2e-9, -5e-10)]
                prios += [4e-9, 1e-9, -2e-9, 0.0, 5e-324, float(np.nextafter(1.0, 2.0))]
                obs["near_tie_histories"] = obs.get("near_tie_histories", 0) + 1
            hist = []
            try:
                for k in range(nops):
                    u = rng.random()
                    if u < 0.45:
                        x = float(rng.random()) if rng.random() < 0.7 else float(rng.integers(1, 64)) / 64.0
                        if x in h.order.xs or not (0 < x < 1):
                            continue
                        op = ("ins", x, float(rng.choice(prios)), bool(rng.random() < 0.5), float(rng.choice(prios)))
                    elif u < 0.65:
                        op = ("best",)
                    elif u < 0.72:
                        op = ("bestlocal",)
                    elif u < 0.77:
                        op = ("clear",)
                    elif u < 0.82:
                        op = ("refill",)
                    elif u < 0.9:
                        op = ("find", float(rng.random()) if rng.random() < 0.8 else float(rng.choice(h.order.xs)))
                    else:
                        if len(h.items) <= 2:
                            continue
                        op = ("rewrite", int(rng.integers(0, len(h.items) - 2)), float(rng.choice(prios)), float(rng.choice(prios)))
                    if not h.applicable(op):
                        continue
                    hist.append(op)
                    h.apply(op)
                    if h.viol:
                        break
            except Ambiguous:
                obs["ambiguous"] = obs.get("ambiguous", 0) + 1
                continue
            obs["histories_random"] = obs.get("histories_random", 0) + 1
            obs["ops"] = obs.get("ops", 0) + h.n_ops
            obs["best_requests"] = obs.get("best_requests", 0) + h.n_best
            obs["lookups"] = obs.get("lookups", 0) + h.n_find
            obs["max_random_history_len"] = max(obs.get("max_random_history_len", 0), len(hist))
            if ml is not None:
                obs["bounded_histories"] = obs.get("bounded_histories", 0) + 1
            keys.append("r|%d|%d" % (c["i"], q))
            for v in h.viol:
                if len(viol) < 5:
                    viol.append(dict(v, history=[list(o) for o in hist][-40:]))
        return {"violations": viol, "obs": obs, "nontrivial": True, "keys": keys,
                "sample": {"kind": "random", "histories": c["n"], "last_history_head": [list(o) for o in hist][:8]} if c["i"] < 2 else None}
    if c["kind"] == "cq":
        rng = scenario.rng_for(c["seed"], "C19q", c["i"])
        for q in range(c["n"]):
            ml = [None, 1, 2, 3, 5, 50][int(rng.integers(6))]
            real = CharacteristicsQueue(ml)
            model = QueueModel(ml)
            items = []
            hist = []
            try:
                if real.GetMaxLen() != ml:
                    viol.append({"mech": "containers:queue-maxlen", "real": real.GetMaxLen(), "expected": ml})
                for k in range(int(rng.integers(3, 80))):
                    u = rng.random()
                    if u < 0.55:
                        pr = float(rng.integers(-2, 5)) if rng.random() < 0.6 else float(rng.normal())
                        it = SearchDataItem(Point([0.0], []), float(rng.random()))
                        items.append(it)
                        real.Insert(pr, it)
                        model.insert(pr, len(items) - 1)
                        hist.append(["insert", pr])
                    elif u < 0.9:
                        if real.IsEmpty():
                            if not model.is_empty():
                                viol.append({"mech": "containers:queue-empty-but-model-not", "history": hist[-20:]})
                            continue
                        got, pr = real.GetBestItem()
                        gid = next((i for i, x in enumerate(items) if x is got), None)
                        before = set(model.states)
                        hist.append(["best", pr])
                        obs["cq_best"] = obs.get("cq_best", 0) + 1
                        if gid is None or not model.pop_best(gid, pr):
                            if len(viol) < 5:
                                viol.append({"mech": "containers:queue-best-not-maximal", "maxlen": ml, "returned_priority": pr,
                                             "admissible_states": [list(s) for s in list(before)[:3]], "history": hist[-20:]})
                            break
                    else:
                        real.Clear()
                        model.clear()
                        hist.append(["clear"])
                    if real.GetLen() not in model.length():
                        if len(viol) < 5:
                            viol.append({"mech": "containers:queue-length", "real": real.GetLen(), "model": sorted(model.length()), "maxlen": ml, "history": hist[-20:]})
                        break
            except Ambiguous:
                obs["ambiguous"] = obs.get("ambiguous", 0) + 1
                continue
            obs["histories_queue"] = obs.get("histories_queue", 0) + 1
            keys.append("q|%d|%d" % (c["i"], q))
        return {"violations": viol, "obs": obs, "nontrivial": True, "keys": keys}
    raise ValueError(c["kind"])


def finalize(obs, tier, stats):
    for k in ("histories_exhaustive", "histories_random", "histories_queue", "best_requests", "lookups", "bounded_histories", "cq_best",
              "hooked_solver_runs", "hooked_ambient_workloads", "hook_queue_pops", "hook_inserts_with_hint", "hook_inserts_without_hint",
              "hook_queue_clears", "hook_full_traversals", "hook_lookups", "hook_pops_with_ties", "large_histories", "large_lookups"):
        if not obs.get(k):
            return "%s never observed" % k, {}
    amb = obs.get("ambiguous", 0)
    tot = obs["histories_exhaustive"] + obs["histories_random"] + obs["histories_queue"]
    if amb > 0.2 * tot:
        return "too many histories abandoned as ambiguous: %d of %d" % (amb, tot), {}
    return None, {"exhaustive_part": "all applicable histories of length <= %d over %d operations on 6 container configurations" % (obs.get("max_history_len", 0), len(alphabet()))}
