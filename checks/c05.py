"""C05 - all evaluations and the result stay inside the box; refinement never worsens."""
import numpy as np

from vlib import ambient, scenario, record

LEVEL = "exploration"
RULE = ("seeded scenarios with emphasis on objectives whose unconstrained minimum lies outside or on the boundary of the box (linear, "
        "quadratics centred at -0.5/0/1/1.7 of the side), cones, needles, scale extremes; N=1..5, every box kind, refineSolution on and off, "
        "budgets 10..3000. Every logged evaluation point (global phase and Nelder-Mead refinement) and the returned point are compared "
        "exactly with [lower, upper]; with refinement the returned value is compared with the best global-phase value and with the "
        "harness's own re-evaluation at the returned point. Non-trivial: refinement ran with >= 3 local evaluations, or >= 5 global trials; "
        "distinct = (family, N, box kind, refine, trials, local evaluations).")
ASSUMPTIONS = ["|lower|/side <= 1e6 and density <= 12, so the half-cell margin of every evolvent image exceeds rounding of the affine map by > 1e5x and exact comparison is sound"]
SIZES = {"quick": 480, "thorough": 60000}
FAMS = ["linear", "outside", "linear", "outside", "cones", "needle", "wells", "sines", "scaled", "stairs", "discont", "noise", "const"]


def cases(tier, seed):
    out = []
    for i in range(SIZES[tier]):
        rng = scenario.rng_for(seed, "C05", i)
        scn = scenario.gen_scenario(rng, fams=FAMS, max_iters=400 if tier == "quick" else 3000, refine=bool(rng.random() < 0.7))
        scn["iters"] = int(rng.choice([10, 20, 40, 100, 200, 400] if tier == "quick" else [10, 20, 40, 100, 400, 1000, 3000]))
        u = rng.random()
        if u < 0.25:
            scn["pattern"] = [["iter", int(rng.integers(1, 10))], ["solve"]]
        elif u < 0.5:
            # multi-step use of the public API: refinement, further global iterations, refinement again
            scn["obj"] = scenario.gen_objective(rng, scn["N"], ["sines", "cones", "wells", "needle", "sines"])
            k1, k2 = int(rng.integers(3, 40)), int(rng.integers(5, 80))
            pats = [[["solve"], ["iter", k2], ["solve"]],
                    [["iter", k1], ["local", int(rng.integers(2, 30))], ["iter", k2], ["local", int(rng.integers(2, 30))]],
                    [["iter", k1], ["local", 5], ["iter", k2], ["solve"]],
                    [["solve"], ["local", int(rng.integers(1, 20))], ["iter", k2], ["local", 10], ["iter", 7], ["solve"]]]
            scn["pattern"] = pats[int(rng.integers(len(pats)))]
            scn["multi"] = True
        out.append(scn)
    # two problems of the same dimension on DIFFERENT boxes solved one after the other with ONE SolverParameters object (a parameter
    # sweep written the obvious way): every evaluation of the second problem, refinement included, must lie in the second box
    for i in range(48 if tier == "quick" else 1500):
        rng = scenario.rng_for(seed, "C05P", i)
        a = scenario.gen_scenario(rng, fams=["linear", "outside", "cones", "wells", "sines"], max_iters=60, refine=True, dims=(1, 2, 2, 3, 4))
        b = scenario.gen_scenario(rng, fams=["linear", "outside", "cones", "wells", "sines"], max_iters=60, refine=True, dims=(a["N"],))
        for s_ in (a, b):
            s_["iters"] = int(rng.integers(10, 60))
            s_["start_point"] = None
        out.append({"pair": [a, b], "grp": "shared-parameters", "second": ["solve", "iter-local", "solve-twice"][i % 3]})
    # workloads written by the repository's authors (shipped examples, solving tests) under the same oracle
    out += ambient.ambient_cases(tier)
    return out


def run_shared_parameters(c):
    import contextlib
    import io
    from iOpt.solver import Solver
    record.install_phase_wrappers()
    del record.PHASE[:]
    a, b = c["pair"]
    params = record.make_params(a)
    viol = []
    probs = []
    with contextlib.redirect_stdout(io.StringIO()):
        pa, _ = record.make_problem(a, cap=a["iters"] + 20)
        sa = Solver(pa, parameters=params)
        sa.Solve()
        params.itersLimit = b["iters"]
        params.eps = b["eps"]
        params.r = b["r"]
        pb, _ = record.make_problem(b, cap=b["iters"] + 40)
        sb = Solver(pb, parameters=params)
        if c["second"] == "iter-local":
            record.run_pattern(sb, [["iter", 7], ["local", 8], ["iter", 5], ["solve"]])
        elif c["second"] == "solve-twice":
            sb.Solve()
            sa.DoLocalRefinement(4)
            sb.Solve()
        else:
            sb.Solve()
    obs = {"runs": 2, "shared_parameter_pairs": 1, "global_evals": 0, "local_evals": 0}
    for scn, prob, solver in ((a, pa, sa), (b, pb, sb)):
        if scn["N"] == 1 and record.image_space_degenerate(solver, scn["lower"], scn["upper"]):
            continue
        for e in prob.log:
            obs["global_evals" if e["ph"] == "g" else "local_evals"] += 1
            if not record.inside_box(e["y"], scn["lower"], scn["upper"]):
                if len(viol) < 4:
                    viol.append({"mech": "evaluation-outside-box:" + ("global" if e["ph"] == "g" else "refinement"), "i": e["i"], "point": e["y"].tolist(),
                                 "lower": scn["lower"], "upper": scn["upper"], "what": "second of two solvers sharing one SolverParameters object" if scn is b else "first"})
        fin = record.snap_solution(solver.GetResults())
        if fin["y"] is not None and not record.inside_box(fin["y"], scn["lower"], scn["upper"]):
            viol.append({"mech": "result-outside-box", "point": fin["y"].tolist(), "lower": scn["lower"], "upper": scn["upper"]})
    return {"violations": viol, "obs": obs, "nontrivial": True, "key": "shared|%d|%s|%d" % (a["N"], c["second"], obs["local_evals"]),
            "sample": {"kind": "two solvers, one parameters object", "N": a["N"], "second": c["second"], "local_evals": obs["local_evals"]}}


def run_case(scn):
    if "ambient" in scn:
        return ambient.run_ambient_case(scn, "C05")
    if scn.get("grp") == "shared-parameters":
        return run_shared_parameters(scn)
    stepviol = []
    stepobs = {"refinement_steps": 0}
    holder = {}

    def after_step(n, step):
        # after every refinement (explicit DoLocalRefinement, or Solve with refineSolution): the reported point is in the box,
        # its value is the objective there and is not worse than the best global-phase trial made so far
        prob = holder["prob"]
        refined = step[0] == "local" or (step[0] == "solve" and scn["refine"])
        if not refined:
            return
        stepobs["refinement_steps"] += 1
        sn = record.snap_solution(prob.solver.GetResults())
        g = [float(e["v"]) for e in prob.log if e["ph"] == "g" and e["v"] is not None]
        if sn["y"] is None or not g:
            return
        if not record.inside_box(sn["y"], scn["lower"], scn["upper"]):
            stepviol.append({"mech": "result-outside-box", "after_step": [n, step], "point": sn["y"].tolist()})
        if not record.same_value(prob.f(sn["y"]), sn["v"]):
            stepviol.append({"mech": "result-value-not-objective-at-point", "after_step": [n, step], "reported": float(sn["v"]), "recomputed": float(prob.f(sn["y"]))})
        if float(sn["v"]) > min(g):
            stepviol.append({"mech": "refinement-worsened", "after_step": [n, step], "reported": float(sn["v"]), "best_global": min(g),
                             "pattern": scn.get("pattern")})
        if n > 0 and any(s[0] == "iter" for s in scn.get("pattern", [])[:n]) and stepobs["refinement_steps"] >= 2:
            stepobs["second_refinements_after_more_trials"] = stepobs.get("second_refinements_after_more_trials", 0) + 1

    prob, info = record.make_problem(scn, cap=scn["iters"] + sum(s[1] for s in scn.get("pattern", []) if s[0] == "iter") + 8)
    holder["prob"] = prob
    t = record.run_solver(scn, listener=False, problem=prob, after_step=after_step)
    if t.fp_exhausted:
        return {"violations": [], "obs": {"fp_domain_exhausted": 1}, "skip": "fp-domain-exhausted"}
    if scn["N"] == 1 and record.image_space_degenerate(t.solver, scn["lower"], scn["upper"]):
        # iteration batches (which ignore eps) drove a trial closer to its neighbour / to the box boundary than the spacing of doubles
        # in the box's coordinates: outside the floating-point domain, checked on the actual partition, not assumed
        return {"violations": [], "obs": {"fp_domain_exhausted_in_box_coordinates": 1}, "skip": "fp-domain-exhausted-in-box-coordinates"}
    viol = list(stepviol[:4])
    lo, hi = scn["lower"], scn["upper"]
    if t.swallowed or t.aborted:
        viol.append({"mech": "solve-internal-exception", "stdout": t.stdout[-300:]})
    nout = {"g": 0, "l": 0}
    for e in t.log:
        if not record.inside_box(e["y"], lo, hi):
            nout[e["ph"]] = nout.get(e["ph"], 0) + 1
            if len(viol) < 4:
                viol.append({"mech": "evaluation-outside-box:" + ("global" if e["ph"] == "g" else "refinement"),
                             "i": e["i"], "point": e["y"].tolist(), "lower": lo, "upper": hi})
    glog = [e for e in t.log if e["ph"] == "g" and e["v"] is not None]
    llog = [e for e in t.log if e["ph"] == "l"]
    fin = t.final
    obs = {"runs": 1, "global_evals": len(glog), "local_evals": len(llog), "refine_runs": int(bool(scn["refine"]))}
    obs.update(stepobs)
    refined_any = bool(llog)
    if fin["y"] is None:
        viol.append({"mech": "no-result"})
    else:
        if not record.inside_box(fin["y"], lo, hi):
            viol.append({"mech": "result-outside-box", "point": fin["y"].tolist(), "lower": lo, "upper": hi})
        pure = t.problem.f(fin["y"])
        if not record.same_value(pure, fin["v"]):
            viol.append({"mech": "result-value-not-objective-at-point", "reported": float(fin["v"]), "recomputed": float(pure),
                         "point": fin["y"].tolist()})
        if glog:
            bestg = min(float(e["v"]) for e in glog)
            if float(fin["v"]) > bestg:
                viol.append({"mech": "refinement-worsened" if refined_any else "result-worse-than-best-trial",
                             "reported": float(fin["v"]), "best_global": bestg})
            if scn["refine"] and float(fin["v"]) < bestg:
                obs["refinement_improved"] = 1
        # on the boundary?
        u = (fin["y"] - np.array(lo, dtype=float)) / (np.array(hi, dtype=float) - np.array(lo, dtype=float))
        if scn["refine"] and (np.any(u <= 0) or np.any(u >= 1)):
            obs["result_on_boundary"] = 1
    if scn["refine"] and llog:
        lo_a, hi_a = np.array(lo, dtype=float), np.array(hi, dtype=float)
        if any(np.any(e["y"] == lo_a) or np.any(e["y"] == hi_a) for e in llog):
            obs["local_evals_clipped_to_boundary"] = 1
    for sol in t.solutions:
        if sol.numberOfLocalTrials and not refined_any:
            viol.append({"mech": "local-trials-without-refinement", "n": sol.numberOfLocalTrials})
    nt = (scn["refine"] and len(llog) >= 3) or len(glog) >= 5
    return {"violations": viol, "obs": obs, "nontrivial": nt,
            "key": "%s|%d|%s|%s|%d|%d" % (scn["obj"]["fam"], scn["N"], scn["box"], scn["refine"], len(glog), len(llog)) if nt else None,
            "sample": dict(scenario.short(scn), global_evals=len(glog), local_evals=len(llog),
                           result=None if fin["y"] is None else fin["y"].tolist())}


def finalize(obs, tier, stats):
    if obs.get("local_evals", 0) < (2000 if tier == "quick" else 20000):
        return "only %d refinement evaluations observed" % obs.get("local_evals", 0), {}
    miss = [k for k in ("refinement_improved", "result_on_boundary", "local_evals_clipped_to_boundary", "second_refinements_after_more_trials", "shared_parameter_pairs") if not obs.get(k)]
    if miss:
        return "never observed: %s" % miss, {}
    return None, {}
