"""C11 - determinism and independence from how iterations are batched."""
import itertools
import json
import os
import subprocess
import sys

import numpy as np

from vlib import scenario, record
from vlib.child_run import log_digest

LEVEL = "exploration"
RULE = ("(a) for base runs with T <= 6 (quick) / 8 (thorough) trials: ALL compositions of every prefix length j <= T into DoGlobalIteration batches followed by "
        "Solve (2^T - 1 call patterns per scenario) must reproduce the plain Solve log bitwise; (b) random compositions, incl. zero-length batches and "
        "overshoot beyond the stop point (the log must extend the base log and Solve must add nothing), on runs of up to 1500 trials; (c) every run is "
        "repeated in-process, a second Solve must evaluate nothing in the global phase; (d) selected scenarios are re-run in fresh interpreters with "
        "different PYTHONHASHSEED. Non-trivial: a composition with >= 2 batches or a repeat; distinct = (scenario, composition)."
       ' (e) one shipped problem object serves four Solvers (refining, batched) and a fresh object a fifth: one evaluation log; (f) 2300..3400 single steps against a few long batches.')
ASSUMPTIONS = ["logs are compared bitwise on points, values and order", "refineSolution=False except in a few random cases where only the global-phase log is compared"]
CHUNK = 1


def compositions(j):
    """all compositions of j into positive parts"""
    if j == 0:
        yield []
        return
    for cuts in itertools.product([0, 1], repeat=j - 1):
        parts, cur = [], 1
        for c in cuts:
            if c:
                parts.append(cur)
                cur = 1
            else:
                cur += 1
        parts.append(cur)
        yield parts


def cases(tier, seed):
    out = []
    Tmax = 6 if tier == "quick" else 8
    nscn = 16 if tier == "quick" else 240
    for i in range(nscn):
        rng = scenario.rng_for(seed, "C11a", i)
        scn = scenario.gen_scenario(rng, refine=False, max_iters=10)
        if i % 2 == 0:
            scn["iters"] = int(rng.integers(3, Tmax + 1))
            scn["eps"] = max(scn["eps"] * 0.0 + 1e-2, scenario.eps_floor(scn["N"], scn["m"]))
        else:
            scn["iters"] = Tmax
            scn["eps"] = float(rng.choice([0.6, 0.4, 0.3]))
        out.append({"kind": "allcomp", "scn": scn, "i": i, "Tmax": Tmax})
    nr = 90 if tier == "quick" else 10000
    for i in range(nr):
        rng = scenario.rng_for(seed, "C11b", i)
        scn = scenario.gen_scenario(rng, refine=bool(rng.random() < 0.15), max_iters=300 if tier == "quick" else 1500)
        out.append({"kind": "random", "scn": scn, "i": i, "seed": seed, "ncomp": 6 if tier == "quick" else 10})
    for i in range(3 if tier == "quick" else 12):
        rng = scenario.rng_for(seed, "C11c", i)
        scn = scenario.gen_scenario(rng, refine=False, max_iters=200)
        out.append({"kind": "xproc", "scn": scn, "i": i})
    # long runs (2300..3400 trials): single steps against a few long batches
    for i in range(4 if tier == "quick" else 60):
        rng = scenario.rng_for(seed, "C11L", i)
        scn = scenario.gen_scenario(rng, dims=(1, 2, 2, 3), refine=False, max_iters=100, fams=["noise", "sines", "rcos", "wells", "cones"])
        scn["iters"] = 100000
        scn["m"] = max(scn["m"], 8)
        out.append({"kind": "long", "scn": scn, "i": i, "seed": seed, "T": int(rng.integers(2300, 3400))})
    # shipped benchmark problems: the SAME problem object serves several Solvers one after the other (repeat, batched repeat) and a freshly
    # constructed object of the same member serves one more - one trial sequence
    fams = ["gkls", "grishagin", "hill", "shekel", "rastrigin", "xsquared", "shekel4", "gkls", "grishagin"]
    for i in range(27 if tier == "quick" else 900):
        rng = scenario.rng_for(seed, "C11d", i)
        fam = fams[i % len(fams)]
        key = {"gkls": lambda: ("gkls", int(rng.integers(2, 4)), int(rng.integers(1, 101))), "grishagin": lambda: ("grishagin", int(rng.integers(1, 101))),
               "hill": lambda: ("hill", int(rng.integers(0, 1000))), "shekel": lambda: ("shekel", int(rng.integers(0, 1000))),
               "rastrigin": lambda: ("rastrigin", int(rng.integers(1, 4))), "xsquared": lambda: ("xsquared", int(rng.integers(1, 4))),
               "shekel4": lambda: ("shekel4", int(rng.integers(1, 4)))}[fam]()
        out.append({"kind": "bench", "key": list(key), "i": i, "seed": seed,
                    "scn": {"N": None, "r": float(rng.choice([2.5, 3.0, 4.0])), "eps": float(rng.choice([0.01, 0.02, 0.05])),
                            "iters": int(rng.integers(40, 220 if tier == "quick" else 600)), "m": int(rng.integers(5, 11)), "refine": bool(i % 3 != 2)}})
    return out


def glog(t):
    return [e for e in t.log if e["ph"] == "g"]


def same_log(a, b):
    if len(a) != len(b):
        return False
    for x, y in zip(a, b):
        if not np.array_equal(x["y"], y["y"]) or not record.same_value(x["v"], y["v"]):
            return False
    return True


def first_diff(a, b):
    for k, (x, y) in enumerate(zip(a, b)):
        if not np.array_equal(x["y"], y["y"]) or not record.same_value(x["v"], y["v"]):
            return k
    return min(len(a), len(b))


def run_pat(scn, pattern):
    s = dict(scn)
    s["pattern"] = pattern
    lims = [p[2] for p in pattern if p[0] == "set" and p[1] == "itersLimit"]
    return record.run_solver(s, listener=False, cap=max([scn["iters"]] + lims) + sum(p[1] for p in pattern if p[0] == "iter") + 8)


def run_bench(c):
    from vlib import bench
    scn = c["scn"]
    key = tuple(c["key"])
    viol = []
    obs = {"bench_members": 1, "bench_families": [key[0]], "bench_refined": int(scn["refine"])}
    inner = bench.construct(key)

    def run(obj, pattern):
        t = record.run_solver(dict(scn, pattern=pattern), listener=False, problem=record.ProxyProblem(obj, cap=scn["iters"] + 40))
        sol = t.solutions[-1] if t.solutions else None
        snap = None if sol is None else (np.array(sol.bestTrials[0].point.floatVariables, dtype=float).tolist(), float(sol.bestTrials[0].functionValues[0].value),
                                         sol.numberOfGlobalTrials)
        return t, snap
    first, snap1 = run(inner, [["solve"]])
    if first.fp_exhausted or first.swallowed or first.aborted:
        return {"violations": [], "obs": {"bench_runs_not_comparable": 1}, "skip": "run ended by the method's guard"}
    b_all = [e for e in first.log if e["ph"] in ("g", "l")]
    b = glog(first)
    T = len(b)
    rng = scenario.rng_for(c["seed"], "C11bench", c["i"])
    k1 = int(rng.integers(1, max(2, T)))
    k2 = int(rng.integers(0, max(1, T - k1)))
    progs = [("the same problem object, second Solver", inner, [["solve"]], True),
             ("the same problem object, third Solver, batched", inner, [["iter", k1], ["iter", k2], ["solve"]], False),
             ("a freshly constructed object of the same member", bench.construct(key), [["solve"]], True),
             ("the same problem object, fourth Solver", inner, [["solve"]], True)]
    for what, obj, pat, whole in progs:
        t, snap = run(obj, pat)
        obs["bench_reruns"] = obs.get("bench_reruns", 0) + 1
        g = [e for e in t.log if e["ph"] in ("g", "l")] if whole else glog(t)
        ref = b_all if whole else b
        if not same_log(ref, g):
            if len(viol) < 4:
                viol.append({"mech": "repeat-differs", "key": list(key), "run": what, "T": T, "len": len(g), "first_diff": first_diff(ref, g),
                             "refine": scn["refine"], "phases_compared": "global+local" if whole else "global"})
        elif snap != snap1 and len(viol) < 4:
            viol.append({"mech": "repeat-reports-another-result", "key": list(key), "run": what, "first": snap1, "now": snap})
    obs["bench_trials"] = T
    obs["bench_local_evals"] = len(b_all) - T
    return {"violations": viol, "obs": obs, "nontrivial": T >= 5, "keys": ["bench|%s|%d" % ("|".join(map(str, key)), c["i"])],
            "sample": {"kind": "shipped problem object reused by four Solvers + a fresh object", "key": list(key), "T": T, "refine": scn["refine"]} if c["i"] < 3 else None}


def run_long(c):
    scn = c["scn"]
    T = c["T"]
    rng = scenario.rng_for(c["seed"], "C11long", c["i"])
    viol = []
    obs = {"long_runs": 1}
    base = record.run_solver(dict(scn, pattern=[["iter", 1]] * T), listener=False, cap=T + 8)
    if base.fp_exhausted or base.swallowed or base.aborted:
        return {"violations": [], "obs": {"long_runs_ended_by_the_guard": 1}, "skip": "fp-domain-exhausted"}
    b = glog(base)
    for q in range(2):
        a1 = int(rng.integers(1500, T - 300))
        a2 = int(rng.integers(1, T - a1))
        if q == 0:
            parts = [a1, a2, T - a1 - a2]
        else:
            p0 = int(rng.integers(1, 40))
            parts = [p0, a1, 0, T - p0 - a1 - 1, 1]
        assert sum(parts) == T and min(parts) >= 0
        t = record.run_solver(dict(scn, pattern=[["iter", p] for p in parts]), listener=False, cap=T + 8)
        if t.fp_exhausted:
            continue
        g = glog(t)
        obs["long_compositions"] = obs.get("long_compositions", 0) + 1
        if not same_log(b, g):
            if len(viol) < 3:
                viol.append({"mech": "batching-changes-sequence", "T": T, "composition": parts, "len": len(g), "first_diff": first_diff(b, g)})
    obs["max_T_long"] = len(b)
    return {"violations": viol, "obs": obs, "nontrivial": True, "keys": ["long|%d" % c["i"]],
            "sample": dict(scenario.short(scn), T=T, kind="single steps against long batches") if c["i"] < 2 else None}


def run_case(c):
    if c["kind"] == "bench":
        return run_bench(c)
    if c["kind"] == "long":
        return run_long(c)
    scn = c["scn"]
    viol = []
    obs = {}
    keys = []
    base = run_pat(scn, [["solve"]])
    if base.fp_exhausted:
        return {"violations": [], "obs": {"fp_domain_exhausted": 1}, "skip": "fp-domain-exhausted"}
    if base.swallowed or base.aborted:
        viol.append({"mech": "solve-internal-exception", "stdout": base.stdout[-300:]})
    b = glog(base)
    T = len(b)
    # repeat in process
    rep = run_pat(scn, [["solve"]])
    obs["repeats"] = 1
    if not same_log(b, glog(rep)):
        viol.append({"mech": "repeat-differs", "T": T, "first_diff": first_diff(b, glog(rep))})
    # second Solve on a finished solver
    two = run_pat(scn, [["solve"], ["solve"]])
    obs["second_solves"] = 1
    if len(glog(two)) != T or not same_log(b, glog(two)):
        viol.append({"mech": "second-solve-made-global-trials", "T": T, "after_second_solve": len(glog(two))})
    if c["kind"] == "allcomp":
        n = 0
        for j in range(0, T + 1):
            for parts in compositions(j):
                pat = [["iter", p] for p in parts] + [["solve"]]
                t = run_pat(scn, pat)
                if t.fp_exhausted:
                    obs["fp_domain_exhausted"] = obs.get("fp_domain_exhausted", 0) + 1
                    continue
                n += 1
                if not same_log(b, glog(t)):
                    if len(viol) < 5:
                        viol.append({"mech": "batching-changes-sequence", "T": T, "composition": parts, "len": len(glog(t)),
                                     "first_diff": first_diff(b, glog(t))})
                if len(parts) >= 2:
                    keys.append("ac|%d|%s" % (c["i"], parts))
        obs["compositions_all"] = n
        obs["allcomp_scenarios"] = 1
        obs["max_T_allcomp"] = T
        return {"violations": viol, "obs": obs, "nontrivial": True, "keys": keys,
                "sample": dict(scenario.short(scn), T=T, compositions=n, exhaustive=True)}
    if c["kind"] == "random":
        rng = scenario.rng_for(c["seed"], "C11run", c["i"])
        for q in range(c["ncomp"]):
            over = rng.random() < 0.35
            total = T + int(rng.integers(1, 12)) if over else int(rng.integers(0, T + 1))
            parts = []
            left = total
            while left > 0:
                p = int(min(left, rng.integers(1, max(2, total // 2 + 1))))
                parts.append(p)
                left -= p
                if rng.random() < 0.15:
                    parts.append(0)
            pat = [["iter", p] for p in parts] + [["solve"]] + ([["solve"]] if rng.random() < 0.3 else [])
            t = run_pat(scn, pat)
            if t.fp_exhausted:
                obs["fp_domain_exhausted"] = obs.get("fp_domain_exhausted", 0) + 1
                continue
            g = glog(t)
            obs["compositions_random"] = obs.get("compositions_random", 0) + 1
            if 0 in parts:
                obs["zero_batches"] = obs.get("zero_batches", 0) + 1
            if over:
                obs["overshoot"] = obs.get("overshoot", 0) + 1
                if len(g) != total or not same_log(b, g[:T]):
                    if len(viol) < 5:
                        viol.append({"mech": "overshoot-not-an-extension", "T": T, "batched": total, "len": len(g), "first_diff": first_diff(b, g)})
            else:
                if not same_log(b, g):
                    if len(viol) < 5:
                        viol.append({"mech": "batching-changes-sequence", "T": T, "composition": parts, "len": len(g), "first_diff": first_diff(b, g)})
            keys.append("r|%d|%s" % (c["i"], parts[:6]))
        # Solve, raise the limit, Solve again == one Solve with the raised limit
        if scn["iters"] > 6:
            small = int(rng.integers(1, scn["iters"]))
            s2 = dict(scn)
            s2["iters"] = small
            t2 = run_pat(s2, [["solve"], ["set", "itersLimit", scn["iters"]], ["solve"]])
            if not t2.fp_exhausted:
                obs["raised_limit_runs"] = obs.get("raised_limit_runs", 0) + 1
                if not same_log(b, glog(t2)):
                    viol.append({"mech": "raising-the-limit-changes-sequence", "T": T, "first_limit": small, "len": len(glog(t2)), "first_diff": first_diff(b, glog(t2))})
        obs["max_T_random"] = T
        return {"violations": viol, "obs": obs, "nontrivial": True, "keys": keys,
                "sample": dict(scenario.short(scn), T=T, kind="random compositions") if c["i"] < 2 else None}
    if c["kind"] == "xproc":
        dig = log_digest(base.log)
        env = dict(os.environ)
        for hs in ("1", "424242"):
            env["PYTHONHASHSEED"] = hs
            p = subprocess.run([sys.executable, "-W", "ignore", "-m", "vlib.child_run"], input=json.dumps({"what": "solver-log", "scn": scn}),
                               capture_output=True, text=True, env=env, timeout=300)
            if p.returncode != 0:
                raise RuntimeError("child failed: " + p.stderr[-800:])
            ans = json.loads(p.stdout.strip().splitlines()[-1])
            obs["fresh_process_runs"] = obs.get("fresh_process_runs", 0) + 1
            if ans["digest"] != dig:
                viol.append({"mech": "fresh-process-differs", "hashseed": hs, "n_here": len(base.log), "n_child": ans["n"]})
        return {"violations": viol, "obs": obs, "nontrivial": True, "keys": ["x|%d" % c["i"]],
                "sample": dict(scenario.short(scn), T=T, kind="fresh processes with PYTHONHASHSEED 1 and 424242")}
    raise ValueError(c["kind"])


def EXHAUSTIVE(tier):
    return False


def finalize(obs, tier, stats):
    for k in ("compositions_all", "compositions_random", "overshoot", "zero_batches", "fresh_process_runs", "second_solves", "raised_limit_runs", "bench_reruns", "bench_local_evals", "long_compositions"):
        if not obs.get(k):
            return "%s never exercised" % k, {}
    return None, {"exhaustive_part": "all compositions of every prefix for %d scenarios with T <= %d" % (obs.get("allcomp_scenarios", 0), obs.get("max_T_allcomp", 0))}
