"""C12 - solver instances are isolated from one another."""
import itertools

import numpy as np

from vlib import scenario, record, evolvent_model as em
from iOpt.solver import Solver

LEVEL = "exploration"
RULE = ("programs [construct, DoGlobalIteration(1)..., Solve] of 2-4 solver instances are interleaved in one thread. ALL interleavings are executed for 2 solvers x 4 "
        "steps (70) and 3 x 2 (90) in quick, plus 2 x 6 (924), 3 x 3 (1680), 4 x 2 (2520), 2 x 8 (12870) and 3 x 4 (34650) in thorough, over scenario tuples in which one solver's optimum is its "
        "first trial (the shared-default mechanisms bite there), all 70 schedules of 2 x 4 steps for sibling tuples that differ in exactly one attribute (density, r, eps, objective, box, budget, nothing, proxies around one shared shipped problem object, or the very same Problem object handed to both solvers; one solver of such a pair also runs DoLocalRefinement in between), plus random long interleavings with construction-only intruders. After the schedule every solver's "
        "call log, search information and result must equal its solo run, and every Solution captured when it was returned must still report what it reported then. "
        "Non-trivial: >= 2 solvers really interleaved; distinct = (tuple index, schedule)."
       " In the objective-siblings both solvers refine; in a further kind another solver is driven to the method's floating-point guard around x = 0.5 between the steps of the observed solver.")
ASSUMPTIONS = ["threads are deliberately not used: the code is not concurrent and the property quantifies over step interleavings",
               "solo reference runs are executed in the same process before the interleaving"]
CHUNK = 2


def scenario_tuple(rng, k, first_best):
    scns = []
    for s in range(k):
        N = int(rng.integers(1, 4))
        lo, hi, kind = scenario.gen_box(rng, N)
        m = 10 if N == 1 else int(rng.integers(3, 11))
        if s == 0 and first_best:
            u0 = em.unit_evolvent(N, m).GetImage(0.5) if N > 1 else np.array([0.5])
            obj = {"fam": "cones", "a": [[float(v) for v in u0]], "c": [float(-rng.integers(1, 9))], "K": [float(rng.uniform(0.5, 5))]}
        else:
            obj = scenario.gen_objective(rng, N, ["cones", "sines", "linear", "noise", "stairs", "wells"])
        scns.append({"N": N, "lower": lo, "upper": hi, "box": kind, "obj": obj, "r": float(rng.choice([2.0, 3.0, 4.0])),
                     "eps": 1e-3 if N == 1 else max(2.0 ** -m, 0.02), "iters": 40, "m": m, "refine": False})
    return scns


SIBLING_ATTRS = ["m", "r", "eps", "obj", "box", "twin", "iters", "inner", "sameproblem", "rebound"]


def sibling_tuple(rng, k, attr):
    """k solvers that are copies of one scenario except for ONE attribute (evolvent density, r, eps, objective, box,
    budget, nothing at all, or: separate proxies around one shared shipped problem instance).  State cached under a key that
    forgets an attribute shows up exactly on such tuples."""
    import copy
    N = int(rng.integers(2, 4))
    m = int(rng.integers(3, 11))
    lo, hi, kind = scenario.gen_box(rng, N)
    base = {"N": N, "lower": lo, "upper": hi, "box": kind, "obj": scenario.gen_objective(rng, N, ["cones", "sines", "wells", "linear"]),
            "r": float(rng.choice([2.0, 3.0, 4.0])), "eps": max(2.0 ** -m, 0.02), "iters": 40, "m": m, "refine": False}
    if attr == "inner":
        key = [["grishagin", int(rng.integers(1, 101))], ["gkls", 2, int(rng.integers(1, 101))], ["gkls", 3, int(rng.integers(1, 101))],
               ["rastrigin", 2], ["shekel4", int(rng.integers(1, 4))]][int(rng.integers(5))]
        base = {"bench": key, "share_inner": True, "r": 3.0, "eps": 0.02, "iters": 40, "m": int(rng.integers(4, 11)), "refine": False, "N": None}
    scns = [base]
    for s in range(1, k):
        c = copy.deepcopy(base)
        if attr == "m":
            c["m"] = [v for v in range(2, 13) if v != base["m"] and v * N <= 50][int(rng.integers(0, 8))]
            c["eps"] = max(2.0 ** -c["m"], 0.02)
        elif attr == "r":
            c["r"] = base["r"] + float(rng.choice([0.5, 1.0, 3.0])) * s
        elif attr == "eps":
            c["eps"] = base["eps"] * float(rng.choice([0.5, 2.0, 3.0]))
        elif attr == "obj":
            c["obj"] = scenario.gen_objective(rng, N, ["cones", "sines", "wells", "linear"])
        elif attr == "box":
            c["lower"], c["upper"], c["box"] = scenario.gen_box(rng, N)
        elif attr == "iters":
            c["iters"] = base["iters"] + 7 * s
        elif attr == "inner":
            c["r"] = base["r"] + (0.0 if rng.random() < 0.5 else 1.0)
        elif attr in ("sameproblem", "rebound"):
            c["r"] = base["r"] + (0.0 if rng.random() < 0.5 else 1.0)
        scns.append(c)
    if attr in ("sameproblem", "rebound"):
        for c in scns:
            c["share_problem"] = True          # the very same Problem object is handed to every solver of the tuple
    if attr == "rebound":
        # solver 0 narrows the box of ITS OWN evolvent half way (public attribute, public SetBounds): the others must not notice
        lo_a, hi_a = np.array(base["lower"], dtype=float), np.array(base["upper"], dtype=float)
        scns[0]["rebound_to"] = [[float(v) for v in lo_a + 0.1 * (hi_a - lo_a)], [float(v) for v in hi_a - 0.2 * (hi_a - lo_a)]]
        for c in scns:
            c["box"] = "float"                 # bounds held as float64 arrays by the problem object
    return scns


def intruder_scenario(rng):
    """a solver that is only constructed: high dimension, default or unusual parameters"""
    N = int(rng.integers(4, 9))
    lo, hi, kind = scenario.gen_box(rng, N, "float")
    obj = scenario.gen_objective(rng, N, ["linear", "cones"])
    return {"N": N, "lower": lo, "upper": hi, "box": kind, "obj": obj, "r": 2.0, "eps": 1e-4, "iters": 50,
            "m": int(rng.choice([10, 12])), "refine": False, "params_mode": str(rng.choice(["default", "own"]))}


def all_interleavings_progs(lengths):
    """distinct permutations of the multiset with lengths[s] copies of s"""
    def rec(left, cur):
        if not any(left):
            yield list(cur)
            return
        for s in range(len(left)):
            if left[s]:
                left[s] -= 1
                cur.append(s)
                yield from rec(left, cur)
                cur.pop()
                left[s] += 1
    yield from rec(list(lengths), [])


def all_interleavings(k, steps):
    """distinct permutations of the multiset {0^steps, 1^steps, ...}"""
    def rec(left, cur):
        if not any(left):
            yield list(cur)
            return
        for s in range(k):
            if left[s]:
                left[s] -= 1
                cur.append(s)
                yield from rec(left, cur)
                cur.pop()
                left[s] += 1
    yield from rec([steps] * k, [])


def cases(tier, seed):
    out = []
    spaces = [(2, 4), (3, 2)] if tier == "quick" else [(2, 4), (3, 2), (2, 6), (3, 3), (4, 2), (2, 8), (3, 4)]
    ti = 0
    for (k, steps) in spaces:
        scheds = list(all_interleavings(k, steps))
        ntuples = 3 if tier == "quick" else (1 if len(scheds) > 10000 else 2)
        for tup in range(ntuples):
            blk = 35 if len(scheds) <= 100 else 120
            for a in range(0, len(scheds), blk):
                out.append({"kind": "all", "k": k, "steps": steps, "tuple": ti, "first_best": tup % 2 == 0, "seed": seed,
                            "scheds": scheds[a:a + blk], "space": len(scheds)})
            ti += 1
    # two default-/shared-parameter solvers (3 steps each) and one construction-only high-dimensional intruder: all 140 schedules
    scheds = list(all_interleavings_progs([3, 3, 1]))
    for tup in range(6 if tier == "quick" else 12):
        for a in range(0, len(scheds), 35):
            out.append({"kind": "shared", "tuple": 500 + tup, "seed": seed, "scheds": scheds[a:a + 35], "space": len(scheds), "mode": ["default", "shared"][(tup // 3) % 2]})
    # sibling tuples (copies differing in exactly one attribute): all 70 schedules of 2 x 4 steps per attribute, 3 x 2 for the density
    scheds = list(all_interleavings(2, 4))
    reps = 1 if tier == "quick" else 12
    for rep in range(reps):
        for ai, attr in enumerate(SIBLING_ATTRS):
            for a in range(0, len(scheds), 35):
                out.append({"kind": "siblings", "k": 2, "steps": 4, "attr": attr, "tuple": 700 + 20 * rep + ai, "seed": seed, "scheds": scheds[a:a + 35], "space": len(scheds)})
    scheds3 = list(all_interleavings(3, 2))
    for rep in range(reps):
        for ai, attr in enumerate(["m", "inner"]):
            for a in range(0, len(scheds3), 45):
                out.append({"kind": "siblings", "k": 3, "steps": 2, "attr": attr, "tuple": 900 + 4 * rep + ai, "seed": seed, "scheds": scheds3[a:a + 45], "space": len(scheds3)})
    nr = 60 if tier == "quick" else 6000
    for i in range(nr):
        out.append({"kind": "random", "i": i, "seed": seed, "tuple": 1000 + i, "first_best": i % 2 == 0})
    # another solver drives ITS search until its partition is down to adjacent doubles around x = 0.5 (where every solver has an interval end)
    # and its own floating-point guard stops it: the solver under observation must not notice
    for i in range(8 if tier == "quick" else 200):
        out.append({"kind": "collapse", "i": i, "seed": seed, "tuple": 5000 + i})
    return out


class Inst:
    sid = 0

    def __init__(self, scn):
        self.scn = scn
        self.prob = None
        self.solver = None
        self.captured = []      # (Solution object, snapshot at capture time)

    def mylog(self):
        if self.scn.get("share_problem") and getattr(self, "inners", None) is not None:
            return [e for e in self.prob.log if e.get("o") == self.sid]
        return self.prob.log

    def step(self, kind):
        if self.prob is not None and self.scn.get("share_problem"):
            self.prob.owner = self.sid
        if kind == "rebound":
            lo2, hi2 = self.scn["rebound_to"]
            self.solver.evolvent.SetBounds(np.array(lo2, dtype=float), np.array(hi2, dtype=float))
            return
        if kind == "local":
            record.run_pattern(self.solver, [["local", 6]])
            self.last_snap = record.snap_solution(self.solver.GetResults())
            return
        if kind == "construct" and self.scn.get("share_problem") and getattr(self, "inners", None) is not None:
            if "shared-problem" not in self.inners:
                self.inners["shared-problem"] = record.make_problem(self.scn, cap=100000)[0]
            self.prob = self.inners["shared-problem"]
            self.prob.owner = self.sid
            self.solver = Solver(self.prob, parameters=record.make_params(self.scn))
            return
        if kind == "construct":
            mode = self.scn.get("params_mode", "own")
            if mode == "default":
                self.prob, _ = record.make_problem(self.scn, cap=25000)
                self.solver = Solver(self.prob)                      # the constructor's default SolverParameters
            elif mode == "shared":
                self.prob, _ = record.make_problem(self.scn, cap=25000)
                self.solver = Solver(self.prob, parameters=self.shared)   # one user object passed to several solvers
            elif self.scn.get("bench"):
                from vlib import bench
                key = tuple(self.scn["bench"])
                inners = getattr(self, "inners", None)
                if inners is None or not self.scn.get("share_inner"):
                    inner = bench.construct(key)
                else:
                    if key not in inners:
                        inners[key] = bench.construct(key)
                    inner = inners[key]                                  # one shipped problem object behind several solvers
                self.prob = record.ProxyProblem(inner, cap=self.scn["iters"] + 60)
                self.solver = Solver(self.prob, parameters=record.make_params(self.scn))
            else:
                self.prob, _ = record.make_problem(self.scn, cap=self.scn["iters"] + 60)
                self.solver = Solver(self.prob, parameters=record.make_params(self.scn))
            self.prob.solver = self.solver
        elif kind == "iter":
            record.run_pattern(self.solver, [["iter", 1]])
            s = self.solver.GetResults()
            self.last_snap = record.snap_solution(s)
        elif kind == "solve":
            sols, out = record.run_pattern(self.solver, [["solve"]])
            if "Exception was thrown" in out:
                self.swallowed = True
            self.captured.append((sols[0], record.snap_solution(sols[0])))

    def state(self):
        xs, zs = [], []
        try:
            for it in self.solver.searchData:
                xs.append(float(it.GetX()))
                zs.append(float(it.GetZ()))
        except Exception as e:
            xs.append(repr(e))
        try:
            cnt = self.solver.searchData.GetCount()
        except Exception as e:
            cnt = repr(e)
        return xs, zs, cnt


def program(steps):
    if steps == 2:
        return ["construct", "solve"]
    return ["construct"] + ["iter"] * (steps - 2) + ["solve"]


def snap_eq(a, b):
    if (a["y"] is None) != (b["y"] is None):
        return False
    if a["y"] is not None and not np.array_equal(a["y"], b["y"]):
        return False
    if a["v"] is None and b["v"] is None:
        return a["nG"] == b["nG"] and a["nL"] == b["nL"] and record.same_value(a["acc"], b["acc"])
    return record.same_value(a["v"], b["v"]) and a["nG"] == b["nG"] and a["nL"] == b["nL"] and record.same_value(a["acc"], b["acc"])


def log_eq(a, b):
    return len(a) == len(b) and all(np.array_equal(x["y"], y["y"]) and (record.same_value(x["v"], y["v"]) or (x["v"] is None and y["v"] is None))
                                    for x, y in zip(a, b))


def shared_params():
    from iOpt.solver_parametrs import SolverParameters
    return SolverParameters(eps=0.02, r=3.0, itersLimit=300, evolventDensity=8)


def run_schedule(scns, progs, sched, viol, solo, tag):
    insts = [Inst(s) for s in scns]
    sh = shared_params()
    inners = {}
    for n_, ins in enumerate(insts):
        ins.shared = sh
        ins.inners = inners
        ins.sid = n_
    pcs = [0] * len(scns)
    order_captured = []
    def idle_state(ins):
        if ins.solver is None:
            return None
        return (record.snap_solution(ins.solver.GetResults()), ins.state(), [record.snap_solution(sol) for sol, _ in ins.captured])

    def idle_same(a, b):
        return (a is None and b is None) or (a is not None and b is not None and snap_eq(a[0], b[0]) and a[1] == b[1]
                                             and len(a[2]) == len(b[2]) and all(snap_eq(x, y) for x, y in zip(a[2], b[2])))

    idle = [None] * len(scns)
    for s in sched:
        if pcs[s] >= len(progs[s]):
            continue
        # nothing may have changed for this solver while only the others were acting
        if not idle_same(idle[s], idle_state(insts[s])):
            if len(viol) < 5:
                viol.append({"mech": "state-changed-while-idle", "solver": s, "schedule": sched, "step": pcs[s], "tag": tag})
        insts[s].step(progs[s][pcs[s]])
        pcs[s] += 1
        idle[s] = idle_state(insts[s])
    for s, ins in enumerate(insts):
        if not idle_same(idle[s], idle_state(ins)):
            if len(viol) < 5:
                viol.append({"mech": "state-changed-while-idle", "solver": s, "schedule": sched, "step": "end", "tag": tag})
    for s, ins in enumerate(insts):
        if ins.solver is None:
            continue
        ref = solo[s]
        if not log_eq(ins.mylog(), ref["log"]):
            if len(viol) < 5:
                viol.append({"mech": "trial-sequence-differs-from-solo", "solver": s, "schedule": sched, "len": len(ins.mylog()), "solo_len": len(ref["log"]), "tag": tag})
        if ins.state() != ref["state"]:
            if len(viol) < 5:
                viol.append({"mech": "search-information-differs-from-solo", "solver": s, "schedule": sched, "tag": tag})
        fin = record.snap_solution(ins.solver.GetResults())
        if not snap_eq(fin, ref["final"]):
            if len(viol) < 5:
                viol.append({"mech": "result-differs-from-solo", "solver": s, "schedule": sched, "got": _s(fin), "solo": _s(ref["final"]), "tag": tag})
        if ins.captured and progs[s][-1] == "solve":
            sol, snap = ins.captured[-1]
            now = record.snap_solution(sol)
            if not snap_eq(now, snap):
                if len(viol) < 5:
                    viol.append({"mech": "captured-solution-changed", "solver": s, "schedule": sched, "at_capture": _s(snap), "now": _s(now), "tag": tag})
    return insts


def _s(sn):
    return {"y": None if sn["y"] is None else sn["y"].tolist(), "v": None if sn["v"] is None else float(sn["v"]), "nG": sn["nG"]}


def _solo(scn, prog):
    ins = Inst(scn)
    ins.shared = shared_params()
    for st in prog:
        ins.step(st)
    return {"log": [{"y": e["y"], "v": e["v"], "ph": e["ph"], "exc": e["exc"], "i": e["i"]} for e in ins.prob.log], "state": ins.state(),
            "final": record.snap_solution(ins.solver.GetResults())}


def solo_refs(scns, progs):
    """'the result of running it alone': every solver's program is executed in a forked child of this worker, taken
    before the case constructs anything, so nothing another instance of the case does (including merely being
    constructed) can leak into the reference."""
    import os
    import pickle
    refs = []
    for scn, prog in zip(scns, progs):
        r, w = os.pipe()
        pid = os.fork()
        if pid == 0:
            code = 0
            try:
                os.close(r)
                data = pickle.dumps(_solo(scn, prog))
                with os.fdopen(w, "wb") as fh:
                    fh.write(data)
            except BaseException:
                code = 1
            finally:
                os._exit(code)
        os.close(w)
        with os.fdopen(r, "rb") as fh:
            data = fh.read()
        _, status = os.waitpid(pid, 0)
        if status != 0 or not data:
            raise RuntimeError("solo reference child failed (status %r)" % status)
        refs.append(pickle.loads(data))
    return refs


def run_collapse(c):
    import contextlib
    import io
    rng = scenario.rng_for(c["seed"], "C12c", c["i"])
    viol = []
    obs = {"collapse_programs": 1}
    scn = scenario.gen_scenario(rng, dims=(1, 1, 2), refine=False, max_iters=60, fams=["cones", "sines", "wells", "linear"])
    scn["iters"] = int(rng.integers(20, 60))
    k0 = int(rng.integers(1, 6))
    pat = [["iter", k0], ["solve"]]
    ref = record.run_solver(dict(scn, pattern=pat), listener=False)
    if ref.fp_exhausted or ref.swallowed or ref.aborted:
        return {"violations": [], "obs": {"collapse_reference_not_usable": 1}, "skip": "fp-domain-exhausted"}
    lo_c, hi_c, _ = scenario.gen_box(rng, 1, "float" if c["i"] % 2 else "unit")
    cscn = {"N": 1, "lower": lo_c, "upper": hi_c, "box": "float", "obj": {"fam": "cones", "a": [[0.5]], "c": [0.0], "K": [float(10 ** rng.uniform(-1, 1))]},
            "r": float(rng.choice([1.3, 2.0, 1.000001])), "eps": 1e-3, "iters": 100000, "m": 10, "refine": False, "holder": "same"}
    seen = {}

    def collapse_other():
        prob, _ = record.make_problem(cscn, cap=5000)
        other = Solver(prob, parameters=record.make_params(cscn))
        ended = "ran on"
        with contextlib.redirect_stdout(io.StringIO()):
            try:
                for q in range(400):
                    other.DoGlobalIteration(5)
            except BaseException as e:
                ended = "stopped by its guard" if record.guard_fired(e, other) else "raised " + type(e).__name__
        xs = [float(it.GetX()) for it in other.searchData]
        seen["min_gap"] = float(np.min(np.diff(xs))) if len(xs) > 1 else None
        seen["ended"] = ended
        seen["other"] = other

    def after_step(n, step):
        if n == 0:
            saved = list(record.PHASE)
            collapse_other()
            record.PHASE[:] = saved
    t = record.run_solver(dict(scn, pattern=pat), listener=False, after_step=after_step)
    obs["collapse_other_" + seen.get("ended", "never ran").replace(" ", "_")] = 1
    if seen.get("min_gap") is not None:
        obs["min_gap_of_the_collapsed_partition"] = seen["min_gap"]
    g0 = [e for e in ref.log if e["ph"] == "g"]
    g1 = [e for e in t.log if e["ph"] == "g"]
    if not log_eq(g1, g0):
        viol.append({"mech": "trial-sequence-differs-from-solo", "len": len(g1), "solo_len": len(g0), "tag": "another solver collapsed its partition in between",
                     "other_solver": seen.get("ended"), "scenario": scenario.short(scn)})
    elif ref.solutions and t.solutions and not snap_eq(record.snap_solution(t.solutions[-1]), record.snap_solution(ref.solutions[-1])):
        viol.append({"mech": "result-differs-from-solo", "tag": "another solver collapsed its partition in between"})
    # and a solver created afterwards
    t2 = record.run_solver(dict(scn, pattern=pat), listener=False)
    if not log_eq([e for e in t2.log if e["ph"] == "g"], g0):
        viol.append({"mech": "trial-sequence-differs-from-solo", "tag": "a solver created after another one collapsed its partition", "scenario": scenario.short(scn)})
    return {"violations": viol, "obs": obs, "nontrivial": True, "keys": ["collapse|%d" % c["i"]],
            "sample": {"kind": "another solver collapses its partition around x=0.5", "other": seen.get("ended"), "min_gap": seen.get("min_gap")} if c["i"] < 2 else None}


def run_case(c):
    record.install_phase_wrappers()
    del record.PHASE[:]
    if c["kind"] == "collapse":
        return run_collapse(c)
    viol = []
    obs = {}
    rng = scenario.rng_for(c["seed"], "C12t", c["tuple"])
    if c["kind"] == "all":
        k, steps = c["k"], c["steps"]
        scns = scenario_tuple(rng, k, c["first_best"])
        progs = [program(steps)] * k
        solo = solo_refs(scns, progs)
        for sched in c["scheds"]:
            run_schedule(scns, progs, sched, viol, solo, "all-%dx%d" % (k, steps))
        obs["interleavings_%dx%d" % (k, steps)] = len(c["scheds"])
        obs["interleavings"] = len(c["scheds"])
        best_first = int(np.argmin([float(e["v"]) for e in solo[0]["log"]]) == 0) if solo[0]["log"] else 0
        obs["tuples_with_first_trial_optimum"] = best_first
        return {"violations": viol, "obs": obs, "nontrivial": True,
                "keys": ["%d|%s" % (c["tuple"], "".join(map(str, s))) for s in c["scheds"]],
                "sample": {"solvers": k, "steps_each": steps, "space": c["space"], "first_schedule": c["scheds"][0],
                           "scenarios": [scenario.short(s) for s in scns]} if c["scheds"][0] == sorted(c["scheds"][0]) else None}
    if c["kind"] == "siblings":
        k, steps = c["k"], c["steps"]
        scns = sibling_tuple(rng, k, c["attr"])
        progs = [program(steps)] * k
        if c["attr"] == "rebound" and steps == 4:
            progs = [["construct", "iter", "rebound", "solve"], ["construct", "iter", "iter", "solve"]]
            obs["programs_with_setbounds_on_own_evolvent"] = 1
        elif c["attr"] == "obj" and steps == 4:
            # BOTH solvers polish their optimum (DoLocalRefinement in between, or refineSolution=True at the end of Solve): what one
            # reported before the other refined must still be reported afterwards
            # (the solvers of this tuple minimise different objectives, so their refined values differ)
            if list(c["scheds"][0]) == sorted(c["scheds"][0]):
                progs = [["construct", "iter", "local", "solve"], ["construct", "iter", "local", "solve"]]
            else:
                scns = [dict(x, refine=True) for x in scns]
            obs["programs_where_every_solver_refines"] = 1
        elif c["attr"] in ("sameproblem", "inner", "twin", "m") and steps == 4:
            # one of the solvers polishes its optimum in between (DoLocalRefinement rewrites the best trial in place)
            progs = [["construct", "iter", "local", "solve"], ["construct", "iter", "iter", "solve"]]
            obs["programs_with_local_refinement"] = 1
        solo = solo_refs(scns, progs)
        for sched in c["scheds"]:
            run_schedule(scns, progs, sched, viol, solo, "siblings-%s-%dx%d" % (c["attr"], k, steps))
        obs["interleavings_siblings_" + c["attr"]] = len(c["scheds"])
        obs["interleavings_siblings"] = len(c["scheds"])
        obs["interleavings"] = len(c["scheds"])
        return {"violations": viol, "obs": obs, "nontrivial": True,
                "keys": ["%d|%s" % (c["tuple"], "".join(map(str, s))) for s in c["scheds"]],
                "sample": {"kind": "sibling solvers differing only in '%s'" % c["attr"], "solvers": k, "steps_each": steps, "space": c["space"],
                           "scenarios": [scenario.short(x) if x.get("obj") else x for x in scns]} if c["scheds"][0] == sorted(c["scheds"][0]) else None}
    if c["kind"] == "shared":
        scns = []
        for sidx in range(2):
            N = 2 if sidx == 0 else int(rng.integers(1, 3))
            lo, hi, kind = scenario.gen_box(rng, N, "float")
            obj = scenario.gen_objective(rng, N, ["cones", "sines", "wells", "linear"])
            scns.append({"N": N, "lower": lo, "upper": hi, "box": kind, "obj": obj, "r": 2.0, "eps": 0.01, "iters": 20000, "m": 10, "refine": False,
                         "params_mode": c["mode"]})
        intr = intruder_scenario(rng)
        intr["params_mode"] = c["mode"]                 # the intruder is handed the very same parameter object
        intr["N"] = 6 + c["tuple"] % 3                   # dimensions 6, 7, 8
        intr["lower"], intr["upper"] = [0.0] * intr["N"], [1.0] * intr["N"]
        intr["obj"] = {"fam": "linear", "w": [1.0] * intr["N"], "b": 0.0}
        scns.append(intr)
        progs = [["construct", "iter", "solve"], ["construct", "iter", "solve"], ["construct"]]
        solo = solo_refs(scns, progs)
        for sched in c["scheds"]:
            run_schedule(scns, progs, sched, viol, solo, "shared-" + c["mode"])
        obs["interleavings_2x3+intruder"] = len(c["scheds"])
        obs["interleavings"] = len(c["scheds"])
        obs["params_" + c["mode"]] = 1
        obs["highdim_intruders"] = 1
        return {"violations": viol, "obs": obs, "nontrivial": True,
                "keys": ["%d|%s" % (c["tuple"], "".join(map(str, s))) for s in c["scheds"]],
                "sample": {"kind": "2 solvers with %s parameters + construction-only intruder N=%d" % (c["mode"], scns[2]["N"]), "space": c["space"],
                           "first_schedule": c["scheds"][0]} if c["scheds"][0] == sorted(c["scheds"][0]) else None}
    # random long interleavings with construction-only intruders
    k = int(rng.integers(2, 5))
    if rng.random() < 0.35:
        scns = sibling_tuple(rng, k, SIBLING_ATTRS[int(rng.integers(len(SIBLING_ATTRS)))])
        obs["random_sibling_tuples"] = 1
    else:
        scns = scenario_tuple(rng, k, c["first_best"])
    progs = [["construct"] + ["iter"] * int(rng.integers(0, 12)) + (["solve"] if rng.random() < 0.8 else []) +
             (["iter", "solve"] if rng.random() < 0.2 else []) for _ in range(k)]
    # intruders: constructed, never run
    ni = int(rng.integers(0, 3))
    for q in range(ni):
        scns.append(scenario_tuple(rng, 1, False)[0] if rng.random() < 0.5 else intruder_scenario(rng))
        progs.append(["construct"])
    if rng.random() < 0.3:
        for sc in scns[:k]:
            if sc["N"] is not None and sc["N"] <= 2 and not sc.get("share_problem") and not sc.get("bench"):
                sc["params_mode"] = "shared"
    solo = solo_refs(scns, progs)
    pool = [s for s, p in enumerate(progs) for _ in p]
    for q in range(4):
        sched = [int(v) for v in rng.permutation(pool)]
        run_schedule(scns, progs, sched, viol, solo, "random")
        obs["interleavings_random"] = obs.get("interleavings_random", 0) + 1
        obs["interleavings"] = obs.get("interleavings", 0) + 1
    obs["intruders"] = ni
    return {"violations": viol, "obs": obs, "nontrivial": True, "keys": ["r|%d|%d" % (c["i"], q) for q in range(4)],
            "sample": {"solvers": k, "intruders": ni, "programs": progs} if c["i"] < 2 else None}


def finalize(obs, tier, stats):
    need = {"quick": {"interleavings_2x4": 70 * 3, "interleavings_3x2": 90 * 3},
            "thorough": {"interleavings_2x4": 140, "interleavings_3x2": 180, "interleavings_2x6": 924 * 2, "interleavings_3x3": 1680 * 2,
                         "interleavings_4x2": 2520 * 2, "interleavings_2x8": 12870, "interleavings_3x4": 34650}}[tier]
    for k, v in need.items():
        if obs.get(k, 0) != v:
            return "schedule space %s not exhausted: %d of %d" % (k, obs.get(k, 0), v), {}
    if not obs.get("params_default") or not obs.get("params_shared") or not obs.get("highdim_intruders"):
        return "default/shared parameter objects or high-dimensional intruders never exercised", {}
    miss = [a for a in SIBLING_ATTRS if not obs.get("interleavings_siblings_" + a)]
    if miss:
        return "sibling tuples never exercised for: %s" % miss, {}
    if not obs.get("programs_with_setbounds_on_own_evolvent"):
        return "no interleaved program re-bounded its own evolvent", {}
    if not obs.get("collapse_other_stopped_by_its_guard"):
        return "no other solver was driven to its floating-point guard", {}
    if not obs.get("programs_where_every_solver_refines"):
        return "no interleaved program had every solver refine", {}
    if not obs.get("programs_with_local_refinement"):
        return "no interleaved program contained a local refinement", {}
    if not obs.get("tuples_with_first_trial_optimum") or not obs.get("intruders"):
        return "D3/D4-sensitive tuples or intruders never exercised", {}
    return None, {"schedule_spaces_exhausted": {k: v for k, v in need.items()}}
