"""C04 - the reported optimum is the best trial actually evaluated, at every moment."""
import numpy as np

from vlib import ambient, scenario, record, moments
from iOpt.solver import Solver

LEVEL = "exploration"
RULE = ("seeded scenarios (all objective families with emphasis on ties and scale extremes; N=1..5; call patterns Solve / batches+Solve / "
        "step-by-step / repeated Solve / refinement followed by further global iterations and refinements; refinement on and off). At every moment - after each API step, inside each listener callback, "
        "inside each objective call, on the returned Solution and again after unrelated solvers have run - GetResults() is compared "
        "with the objective's call log. Non-trivial: >= 3 trials and >= 5 moments checked; distinct = (family, N, pattern kind, "
        "trial count, index of the best trial).")
ASSUMPTIONS = ["inside-evaluation moments are checked during the global phase only (mid-refinement the simplex legitimately holds better points)",
               "after refinement the reported point must be an evaluated point whose value is the objective there, not worse than the best global trial, and - at the moments the statement lists - not worse than anything the objective was evaluated at in either phase",
               "ties: any of several equal minima is accepted"]
SIZES = {"quick": 400, "thorough": 7000}
TIE_FAMS = ["const", "stairs", "rcos", "scaled", "cones", "noise", "linear", "sines", "outside", "needle", "discont", "wells",
            "const", "stairs", "rcos", "scaled"]


def cases(tier, seed):
    out = []
    for i in range(SIZES[tier]):
        rng = scenario.rng_for(seed, "C04", i)
        scn = scenario.gen_scenario(rng, fams=TIE_FAMS, max_iters=300 if tier == "quick" else 1500)
        if rng.random() < 0.5:
            scn["iters"] = int(rng.choice([20, 50, 100, 200, 300] if tier == "quick" else [50, 200, 500, 1000, 1500]))
        u = rng.random()
        if u < 0.25:
            scn["pk"] = "solve"
            scn["pattern"] = [["solve"]]
        elif u < 0.5:
            parts = [int(v) for v in rng.integers(1, 15, int(rng.integers(1, 6)))]
            scn["pk"] = "batches"
            scn["pattern"] = [["iter", k] for k in parts] + [["solve"]]
        elif u < 0.8:
            scn["pk"] = "steps"
            scn["pattern"] = [["iter", 1]] * int(rng.integers(2, 60)) + ([["solve"]] if rng.random() < 0.5 else [])
        else:
            scn["pk"] = "resolve"
            scn["pattern"] = [["solve"], ["solve"]] + ([["iter", 2], ["solve"]] if rng.random() < 0.5 else [])
        out.append(scn)
    # the global search goes on after a local refinement has improved the optimum
    nr = 120 if tier == "quick" else 4000
    for i in range(nr):
        rng = scenario.rng_for(seed, "C04R", i)
        scn = scenario.gen_scenario(rng, fams=["sines", "wells", "cones", "rcos", "needle", "outside", "linear", "scaled"], max_iters=120,
                                    dims=(1, 2, 2, 3, 3, 4))
        k1 = int(rng.integers(5, 60))
        scn["eps"] = max(scenario.eps_floor(scn["N"], scn["m"]) * 1.01, min(scn["eps"], 1e-3))
        scn["iters"] = k1
        u = rng.random()
        more = [["iter", int(v)] for v in rng.integers(1, 12, int(rng.integers(1, 8)))]
        if u < 0.4:
            scn["refine"] = True
            scn["pattern"] = [["solve"]] + more
        elif u < 0.7:
            scn["refine"] = False
            scn["iters"] = k1 + 200
            scn["pattern"] = [["iter", k1], ["local", int(rng.integers(3, 80))]] + more + [["local", 5]] + more[:2]
        else:
            scn["refine"] = True
            scn["pattern"] = [["solve"], ["set", "itersLimit", k1 + int(rng.integers(5, 80))], ["solve"]] + more
        scn["pk"] = "refine-continue"
        out.append(scn)
    # workloads written by the repository's authors (shipped examples, solving tests) under the same oracle
    out += ambient.ambient_cases(tier)
    return out


def run_case(scn):
    if "ambient" in scn:
        return ambient.run_ambient_case(scn, "C04")
    holder = {}

    def inside(problem):
        mon = holder.get("mon")
        if mon is None:
            mon = holder["mon"] = moments.OptimumMonitor(problem)
        mon.check_any(record.snap_solution(problem.solver.GetResults()), "inside-evaluation")

    def on_event(kind, solution):
        mon = holder.get("mon")
        if mon is None or solution is None:
            return
        mon.check_any(record.snap_solution(solution), "callback:" + kind)

    def after_step(n, step):
        mon = holder.get("mon")
        if mon is None:
            return
        mon.check_any(record.snap_solution(holder["solver"]().GetResults()), "after:" + step[0])

    # the solver is created inside run_solver; reach it through the problem
    lims = [s[2] for s in scn["pattern"] if s[0] == "set" and s[1] == "itersLimit"]
    prob, info = record.make_problem(scn, cap=max([scn["iters"]] + lims) + sum(s[1] for s in scn["pattern"] if s[0] == "iter") + 8)
    holder["mon"] = moments.OptimumMonitor(prob)
    holder["solver"] = lambda: prob.solver
    t = record.run_solver(scn, listener=True, inside_hook=inside, on_event=on_event, after_step=after_step, problem=prob)
    mon = holder["mon"]
    viol = list(mon.viol)
    if t.fp_exhausted:
        return {"violations": viol, "obs": {"fp_domain_exhausted": 1, "moments": sum(mon.moments.values())}, "skip": "fp-domain-exhausted"}
    if scn["N"] == 1 and mon.refined() and record.image_space_degenerate(t.solver, scn["lower"], scn["upper"]):
        # a trial closer to its neighbour / the box boundary than the spacing of doubles in the box's coordinates (iteration batches ignore
        # eps): its image may round one ulp outside the box, the bounded refinement then starts from the clipped point - outside the FP domain
        return {"violations": [], "obs": {"fp_domain_exhausted_in_box_coordinates": 1}, "skip": "fp-domain-exhausted-in-box-coordinates"}
    if t.swallowed or t.aborted:
        viol.append({"mech": "solve-internal-exception", "stdout": t.stdout[-300:]})
    obs = {"runs": 1}
    # returned Solution objects
    snaps = []
    for s in t.solutions:
        sn = record.snap_solution(s)
        mon.check_any(sn, "returned-solution")
        snaps.append(sn)
    mon.check_any(record.snap_solution(t.solver.GetResults()), "final-GetResults")
    # unrelated solvers are created and run; the earlier result must still be the best trial
    rng = scenario.rng_for(0, "C04-intruder", len(t.log))
    for j in range(2):
        o = scenario.gen_scenario(rng, dims=(scn["N"], 1, 2), max_iters=25, refine=False)
        o["pattern"] = [["solve"]]
        record.run_solver(o, listener=False)
    del record.PHASE[:]
    for s, before in zip(t.solutions, snaps):
        after = record.snap_solution(s)
        mon.check_any(after, "returned-solution-after-other-solvers")
        if before["y"] is not None and (not np.array_equal(before["y"], after["y"]) or not record.same_value(before["v"], after["v"])):
            viol.append({"mech": "optimum:changed-by-other-solver", "before": [before["y"].tolist(), float(before["v"])],
                         "after": [None if after["y"] is None else after["y"].tolist(), moments._f(after["v"])]})
    viol = list(mon.viol) + [v for v in viol if v not in mon.viol]
    done = mon.completed()
    nm = sum(mon.moments.values())
    for k, v in mon.moments.items():
        obs["moments_" + k] = v
    obs["moments"] = nm
    obs["tie_moments"] = mon.tie_moments
    obs["trials"] = len(done)
    best_idx = int(np.argmin([float(e["v"]) for e in done])) if done else -1
    obs["best_is_first_trial"] = int(best_idx == 0 and len(done) > 2)
    obs["best_is_last_trial"] = int(best_idx == len(done) - 1 and len(done) > 2)
    obs["refined_runs"] = int(mon.refined())
    if scn.get("pk") == "refine-continue" and mon.refined():
        first_local = min(e["i"] for e in t.log if e["ph"] == "l")
        obs["global_trials_after_a_refinement"] = len([e for e in t.log if e["ph"] == "g" and e["i"] > first_local])
        obs["moments_after_a_refinement"] = getattr(mon, "refined_moments", 0)
    nt = len(done) >= 3 and nm >= 5
    return {"violations": viol, "obs": obs, "nontrivial": nt,
            "key": "%s|%d|%s|%d|%d" % (scn["obj"]["fam"], scn["N"], scn["pk"], len(done), best_idx) if nt else None,
            "sample": dict(scenario.short(scn), pattern_kind=scn["pk"], trials=len(done), moments=dict(mon.moments), best_trial_index=best_idx)}


def finalize(obs, tier, stats):
    need = 20000 if tier == "quick" else 200000
    if obs.get("moments", 0) < need:
        return "only %d moments checked (< %d)" % (obs.get("moments", 0), need), {}
    miss = [k for k in ("moments_inside-evaluation", "moments_callback:iter", "moments_callback:stop", "moments_after:iter",
                        "moments_returned-solution", "moments_returned-solution-after-other-solvers", "tie_moments",
                        "refined_runs", "best_is_first_trial", "global_trials_after_a_refinement") if not obs.get(k)]
    if miss:
        return "never observed: %s" % miss, {}
    return None, {}
