"""C15 - benchmark evaluation is a pure function of the point."""
import json
import os
import subprocess
import sys

import numpy as np

from vlib import scenario, bench
from iOpt.trial import Point, FunctionValue, FunctionType

LEVEL = "exploration"
RULE = ("long interleaved histories of constructions and evaluations over pools of live instances of all eight families (two instances of the same member included, members "
        "drawn across their ranges, points as arrays and lists, repeated points, StronginC3 objective and its three constraints): every evaluation is compared bitwise with "
        "the canonical value = first evaluation on a freshly constructed instance (the bit-identical point is also put to sibling members of the family back to back, repeated immediately, evaluated first after construction at the declared optimum, holders handed back by earlier calls are reused, integer and half-integer lattice points are included and integer points are also handed over with integer type), the point is compared with a copy taken before the call, the returned object must be the "
        "supplied holder carrying the value; a sample of keys is re-evaluated in a fresh interpreter. Non-trivial: a history with >= 50 evaluations over >= 5 instances; "
        "distinct = distinct (family, member, point, function id) keys evaluated."
       ' Coordinates of tiny magnitude (squares underflow, subnormals, signed zero) are included and an in-box evaluation that raises is a violation.')
ASSUMPTIONS = ["values are compared bitwise (same machine, same libm)", "points inside the box of the instance"]
CHUNK = 1


def cases(tier, seed):
    n = 48 if tier == "quick" else 640
    # every third history is devoted to ONE family (many live members of it, the same points travelling between them)
    return [{"i": i, "seed": seed, "evals": 400 if tier == "quick" else 900, "xproc": i % 8 == 0,
             "focus": FOCUS[(i // 3) % len(FOCUS)] if i % 3 == 0 else None} for i in range(n)]


FOCUS = ["shekel4", "gkls", "grishagin", "hill", "shekel", "rastrigin", "xsquared", "stronginc3"]


def random_key(rng, focus=None):
    if focus == "shekel4":
        return ("shekel4", int(rng.integers(1, 4)))
    if focus == "gkls":
        return ("gkls", 2 + int(rng.integers(0, 4)), int(rng.integers(1, 101)))
    if focus == "grishagin":
        return ("grishagin", int(rng.integers(1, 101)))
    if focus == "hill":
        return ("hill", int(rng.integers(0, 1000)))
    if focus == "shekel":
        return ("shekel", int(rng.integers(0, 1000)))
    if focus == "rastrigin":
        return ("rastrigin", int(rng.integers(1, 4)))
    if focus == "xsquared":
        return ("xsquared", int(rng.integers(1, 4)))
    if focus == "stronginc3":
        return ("stronginc3",)
    u = rng.random()
    if u < 0.2:
        return ("hill", int(rng.integers(0, 1000)))
    if u < 0.4:
        return ("shekel", int(rng.integers(0, 1000)))
    if u < 0.55:
        return ("grishagin", int(rng.integers(1, 101)))
    if u < 0.75:
        return ("gkls", int(rng.integers(2, 6)), int(rng.integers(1, 101)))
    if u < 0.8:
        return ("shekel4", int(rng.integers(1, 4)))
    if u < 0.87:
        return ("rastrigin", int(rng.integers(1, 13)))
    if u < 0.93:
        return ("xsquared", int(rng.integers(1, 13)))
    return ("stronginc3",)


def run_case(c):
    rng = scenario.rng_for(c["seed"], "C15", c["i"])
    viol = []
    obs = {"histories": 1}
    if c.get("focus"):
        obs["family_focused_histories"] = 1
        obs["focus_families"] = [c["focus"]]
    pool = []          # (key, instance)
    canon = {}         # (key, point bytes, fid) -> canonical value (fresh instance)
    points = {}        # key -> list of points used so far (to repeat them)
    nev = 0
    keys_seen = set()
    xq = []
    fresh = {}
    fam_points = {}    # (family, dimension) -> points used by ANY member of the family (siblings share their box)
    last_ret = [None]  # the holder returned by the previous objective evaluation (library idiom: fv = p.Calculate(pt, fv))

    integer_ok = True

    def do_eval(key, inst, y, fid, how):
        nonlocal nev
        ck = (key, y.tobytes(), fid)
        if ck not in canon:
            # canonical value: a freshly constructed instance (kept for at most 6 first-time evaluations, then rebuilt)
            fr = fresh.get(key)
            if fr is None or fr[1] >= 6:
                fr = fresh[key] = [bench.construct(key), 0]
                obs["fresh_constructions"] = obs.get("fresh_constructions", 0) + 1
            fr[1] += 1
            try:
                canon[ck] = bench.evaluate(fr[0], y, fid)
            except Exception as e:
                # the shipped functions are total on their boxes: an evaluation that raises is not "the value of the point"
                if len(viol) < 5:
                    viol.append({"mech": "purity:evaluation-raised", "key": list(key), "fid": fid, "point": [float(v) for v in y], "how": how + " (fresh instance)",
                                 "error": "%s: %s" % (type(e).__name__, str(e)[:120]), "evaluations_before": nev, "live_instances": len(pool)})
                return
            if c["xproc"] and len(xq) < 40 and fid is None:
                xq.append((list(key), [float(v) for v in y], canon[ck]))
        as_list = rng.random() < 0.3
        arg = [float(v) for v in y] if as_list else y.copy()
        if integer_ok and bool(np.all(y == np.rint(y))) and rng.random() < 0.6:
            # an integer point of the box handed over with integer type (list of Python ints / integer ndarray)
            arg = [int(v) for v in y] if as_list else np.array([int(v) for v in y])
            obs["integer_typed_points"] = obs.get("integer_typed_points", 0) + 1
        before = list(arg) if as_list else arg.copy()
        pt = Point(arg, [])
        if fid is None and last_ret[0] is not None and rng.random() < 0.3:
            fv = last_ret[0]              # reuse the holder handed back by the previous call
            obs["holder_reused"] = obs.get("holder_reused", 0) + 1
        else:
            fv = bench.holder(fid)
        try:
            ret = inst.Calculate(pt, fv)
        except Exception as e:
            nev += 1
            if len(viol) < 5:
                viol.append({"mech": "purity:evaluation-raised", "key": list(key), "fid": fid, "point": [float(v) for v in y], "how": how,
                             "error": "%s: %s" % (type(e).__name__, str(e)[:120]), "evaluations_before": nev, "live_instances": len(pool)})
            return
        nev += 1
        obs["how_" + how] = obs.get("how_" + how, 0) + 1
        keys_seen.add((key, y.tobytes(), fid))
        if ret is not fv:
            if len(viol) < 5:
                viol.append({"mech": "purity:returned-object-is-not-the-supplied-holder", "key": list(key), "how": how})
        if fid is None:
            last_ret[0] = fv
        val = getattr(ret, "value", None)
        if fv.value is not val and not (fv.value == val):
            if len(viol) < 5:
                viol.append({"mech": "purity:value-not-stored-in-holder", "key": list(key), "how": how})
        same = (list(pt.floatVariables) == before) if as_list else (np.array_equal(pt.floatVariables, before) and pt.floatVariables is arg)
        if not same:
            if len(viol) < 5:
                viol.append({"mech": "purity:point-modified", "key": list(key), "before": [float(v) for v in before], "after": [float(v) for v in pt.floatVariables]})
        cv = canon[ck]
        if not (float(val) == float(cv) or (val != val and cv != cv)):
            if len(viol) < 5:
                viol.append({"mech": "purity:value-depends-on-history", "key": list(key), "fid": fid, "point": [float(v) for v in y], "got": float(val),
                             "canonical": float(cv), "evaluations_before": nev, "live_instances": len(pool), "how": how})

    def siblings(key, inst):
        d = len(bench.bounds(inst)[0])
        return [(k2, i2) for k2, i2 in pool if k2[0] == key[0] and i2 is not inst and len(bench.bounds(i2)[0]) == d]

    for step in range(c["evals"] * 2):
        if nev >= c["evals"]:
            break
        u = rng.random()
        if not pool or u < 0.12:
            v = rng.random()
            if pool and v < 0.3:
                key = pool[int(rng.integers(len(pool)))][0]                  # a second copy of a live member
            elif pool and v < 0.55:
                k0 = pool[int(rng.integers(len(pool)))][0]                   # another member of a live family (same dimension)
                key = k0
                for _ in range(20):
                    k1 = random_key(rng, c.get("focus"))
                    if k1[0] == k0[0] and (k0[0] != "gkls" or k1[1] == k0[1]) and (k0[0] not in ("rastrigin", "xsquared")):
                        key = k1
                        break
            else:
                key = random_key(rng, c.get("focus"))
            inst = bench.construct(key)
            pool.append((key, inst))
            obs["constructions"] = obs.get("constructions", 0) + 1
            if rng.random() < 0.3:
                # the very first evaluation of the new instance is at an integer point given with integer type
                lo_, hi_ = bench.bounds(inst)
                yi = np.array([float(rng.integers(int(np.ceil(a)), int(np.floor(b)) + 1)) for a, b in zip(lo_, hi_)])
                do_eval(key, inst, yi, None, "integer-point-first")
            elif rng.random() < 0.5:
                # the very first evaluation after construction is at the declared optimum point (constructors evaluate there)
                try:
                    yd, _ = bench.declared(inst)
                    if len(yd) == len(bench.bounds(inst)[0]):
                        do_eval(key, inst, yd.copy(), None, "declared-point-first")
                except Exception:
                    pass
            if len(pool) > 60:
                pool.pop(int(rng.integers(len(pool))))
            continue
        key, inst = pool[int(rng.integers(len(pool)))]
        lo, hi = bench.bounds(inst)
        plist = points.setdefault(key, [])
        fplist = fam_points.setdefault((key[0], len(lo)), [])
        u = rng.random()
        how = "random"
        if plist and u < 0.35:
            y = plist[int(rng.integers(len(plist)))].copy()
            how = "repeat-own"
        elif fplist and u < 0.55:
            y = fplist[int(rng.integers(len(fplist)))].copy()               # a point some sibling member was evaluated at
            how = "repeat-family"
        elif u < 0.6:
            try:
                y = bench.declared(inst)[0].copy()
                how = "declared-point"
                if len(y) != len(lo):
                    raise ValueError
            except Exception:
                y = 0.5 * (lo + hi)
                how = "centre"
        elif u < 0.72:
            # lattice points: coordinates that are multiples of 1/2 (integers and half-integers of the box)
            y = np.clip(np.rint((lo + rng.random(len(lo)) * (hi - lo)) * 2.0) / 2.0, lo, hi)
            if rng.random() < 0.5:
                y = np.clip(np.rint(y), np.ceil(lo), np.floor(hi))
            how = "lattice"
        elif u < 0.76:
            # coordinates of tiny magnitude (squares underflow, subnormals, signed zero) wherever the box contains them
            y = lo + rng.random(len(lo)) * (hi - lo)
            tiny = np.array([float(rng.choice([1e-160, -1e-160, 1e-200, -3e-200, 5e-324, -5e-324, 2.5e-308, -0.0, 1e-17])) for _ in range(len(lo))])
            put = (rng.random(len(lo)) < 0.6) & (tiny >= lo) & (tiny <= hi)
            y = np.where(put, tiny, y)
            how = "tiny-coordinates" if put.any() else "random"
        else:
            y = lo + rng.random(len(lo)) * (hi - lo)
            if rng.random() < 0.1:
                y = np.where(rng.random(len(lo)) < 0.5, lo, hi).astype(float)
                how = "corner"
        if not (np.all(y >= lo) and np.all(y <= hi)):
            y = np.clip(y, lo, hi)
        plist.append(y.copy())
        if len(fplist) < 200:
            fplist.append(y.copy())
        fid = None
        if key[0] == "stronginc3" and rng.random() < 0.6:
            fid = int(rng.integers(0, 3))
        do_eval(key, inst, y, fid, how)
        if key[0] == "gkls" and rng.random() < 0.35:
            # a walk through the attraction balls of this function: consecutive evaluations in different basins (and at minimisers)
            mn = inst.function.GKLS_minima
            Mm = np.array(mn.local_min, dtype=float)
            rr = np.array(mn.rho, dtype=float)
            for q in range(int(rng.integers(3, 7))):
                i_ = int(rng.integers(1, len(rr)))
                u_ = rng.normal(size=len(lo))
                u_ /= np.sqrt((u_ ** 2).sum())
                yb = Mm[i_] + rr[i_] * float(rng.uniform(0.0, 0.9)) * u_ * (0.0 if rng.random() < 0.15 else 1.0)
                if np.all(yb >= lo) and np.all(yb <= hi):
                    do_eval(key, inst, yb, None, "basin-walk")
        v = rng.random()
        if v < 0.12:
            do_eval(key, inst, y.copy(), fid, "immediate-repeat")
        elif v < 0.3:
            sib = siblings(key, inst)
            if sib:
                k2, i2 = sib[int(rng.integers(len(sib)))]
                do_eval(k2, i2, y.copy(), fid, "sibling-same-point")         # the bit-identical point on another member
                do_eval(key, inst, y.copy(), fid, "after-sibling")
                if k2 != key:
                    obs["cross_member_same_point"] = obs.get("cross_member_same_point", 0) + 1
    if c["xproc"] and xq:
        p = subprocess.run([sys.executable, "-W", "ignore", "-m", "vlib.child_run"],
                           input=json.dumps({"what": "bench-values", "queries": [[k, y] for k, y, v in xq]}),
                           capture_output=True, text=True, env=dict(os.environ, PYTHONHASHSEED="77"), timeout=600)
        if p.returncode != 0:
            raise RuntimeError("child failed: " + p.stderr[-800:])
        vals = json.loads(p.stdout.strip().splitlines()[-1])["values"]
        obs["fresh_interpreter_values"] = len(vals)
        for (k, y, v), s in zip(xq, vals):
            if repr(float(v)) != s:
                if len(viol) < 5:
                    viol.append({"mech": "purity:value-differs-in-fresh-interpreter", "key": k, "point": y, "here": float(v), "there": s})
    obs["evaluations"] = nev
    obs["instances_live_max"] = len(pool)
    obs["distinct_keys"] = len(keys_seen)
    fams = sorted({k[0][0] for k in keys_seen})
    obs["families"] = fams
    return {"violations": viol, "obs": obs, "nontrivial": nev >= 50,
            "keys": ["%s|%s|%s" % (k[0], k[1].hex()[:24], k[2]) for k in list(keys_seen)],
            "sample": {"history": c["i"], "evaluations": nev, "constructions": obs.get("constructions"), "families": fams} if c["i"] < 3 else None}


def finalize(obs, tier, stats):
    if len(obs.get("families", [])) < 8:
        return "not all eight families evaluated: %s" % obs.get("families"), {}
    if len(obs.get("focus_families", [])) < 8:
        return "family-focused histories did not cover all eight families: %s" % obs.get("focus_families"), {}
    if not obs.get("fresh_interpreter_values"):
        return "fresh-interpreter comparison never ran", {}
    missing = [k for k in ("cross_member_same_point", "how_immediate-repeat", "how_declared-point-first", "holder_reused", "how_repeat-family", "integer_typed_points", "how_lattice", "how_integer-point-first", "how_basin-walk", "how_tiny-coordinates") if not obs.get(k)]
    if missing:
        return "history shapes never produced: %s" % missing, {}
    return None, {}
