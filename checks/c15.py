"""C15 - benchmark evaluation is a pure function of the point."""
import json
import os
import subprocess
import sys

import numpy as np

from vlib import scenario, bench
from iOpt.trial import Point, FunctionValue, FunctionType

LEVEL = "exploration"
RULE = ("long interleaved histories of constructions and evaluations over pools of live instances of all eight families (two instances of the same member included, members "
        "drawn across their ranges, points as arrays and lists, repeated points, StronginC3 objective and its three constraints): every evaluation is compared bitwise with "
        "the canonical value = first evaluation on a freshly constructed instance, the point is compared with a copy taken before the call, the returned object must be the "
        "supplied holder carrying the value; a sample of keys is re-evaluated in a fresh interpreter. Non-trivial: a history with >= 50 evaluations over >= 5 instances; "
        "distinct = distinct (family, member, point, function id) keys evaluated.")
ASSUMPTIONS = ["values are compared bitwise (same machine, same libm)", "points inside the box of the instance"]
CHUNK = 1


def cases(tier, seed):
    n = 48 if tier == "quick" else 640
    return [{"i": i, "seed": seed, "evals": 400 if tier == "quick" else 900, "xproc": i % 8 == 0} for i in range(n)]


def random_key(rng):
    u = rng.random()
    if u < 0.2:
        return ("hill", int(rng.integers(0, 1000)))
    if u < 0.4:
        return ("shekel", int(rng.integers(0, 1000)))
    if u < 0.55:
        return ("grishagin", int(rng.integers(1, 101)))
    if u < 0.75:
        return ("gkls", int(rng.integers(2, 6)), int(rng.integers(1, 101)))
    if u < 0.8:
        return ("shekel4", int(rng.integers(1, 4)))
    if u < 0.87:
        return ("rastrigin", int(rng.integers(1, 13)))
    if u < 0.93:
        return ("xsquared", int(rng.integers(1, 13)))
    return ("stronginc3",)


def run_case(c):
    rng = scenario.rng_for(c["seed"], "C15", c["i"])
    viol = []
    obs = {"histories": 1}
    pool = []          # (key, instance)
    canon = {}         # (key, point bytes, fid) -> canonical value (fresh instance)
    points = {}        # key -> list of points used so far (to repeat them)
    nev = 0
    keys_seen = set()
    xq = []
    fresh = {}
    for step in range(c["evals"] * 2):
        if nev >= c["evals"]:
            break
        u = rng.random()
        if not pool or u < 0.12:
            key = random_key(rng) if (not pool or rng.random() < 0.7) else pool[int(rng.integers(len(pool)))][0]
            pool.append((key, bench.construct(key)))
            obs["constructions"] = obs.get("constructions", 0) + 1
            if len(pool) > 60:
                pool.pop(int(rng.integers(len(pool))))
            continue
        key, inst = pool[int(rng.integers(len(pool)))]
        lo, hi = bench.bounds(inst)
        plist = points.setdefault(key, [])
        if plist and rng.random() < 0.45:
            y = plist[int(rng.integers(len(plist)))].copy()
        else:
            y = lo + rng.random(len(lo)) * (hi - lo)
            if rng.random() < 0.1:
                y = np.where(rng.random(len(lo)) < 0.5, lo, hi).astype(float)
            plist.append(y.copy())
        fid = None
        if key[0] == "stronginc3" and rng.random() < 0.6:
            fid = int(rng.integers(0, 3))
        ck = (key, y.tobytes(), fid)
        if ck not in canon:
            # canonical value: a freshly constructed instance (kept for at most 6 first-time evaluations, then rebuilt)
            fr = fresh.get(key)
            if fr is None or fr[1] >= 6:
                fr = fresh[key] = [bench.construct(key), 0]
                obs["fresh_constructions"] = obs.get("fresh_constructions", 0) + 1
            fr[1] += 1
            canon[ck] = bench.evaluate(fr[0], y, fid)
            if c["xproc"] and len(xq) < 40 and fid is None:
                xq.append((list(key), [float(v) for v in y], canon[ck]))
        as_list = rng.random() < 0.3
        arg = [float(v) for v in y] if as_list else y.copy()
        before = list(arg) if as_list else arg.copy()
        pt = Point(arg, [])
        fv = bench.holder(fid)
        ret = inst.Calculate(pt, fv)
        nev += 1
        keys_seen.add((key, y.tobytes(), fid))
        if ret is not fv:
            if len(viol) < 5:
                viol.append({"mech": "purity:returned-object-is-not-the-supplied-holder", "key": list(key)})
        val = getattr(ret, "value", None)
        if fv.value is not val and not (fv.value == val):
            if len(viol) < 5:
                viol.append({"mech": "purity:value-not-stored-in-holder", "key": list(key)})
        same = (list(pt.floatVariables) == before) if as_list else (np.array_equal(pt.floatVariables, before) and pt.floatVariables is arg)
        if not same:
            if len(viol) < 5:
                viol.append({"mech": "purity:point-modified", "key": list(key), "before": [float(v) for v in before], "after": [float(v) for v in pt.floatVariables]})
        cv = canon[ck]
        if not (float(val) == float(cv) or (val != val and cv != cv)):
            if len(viol) < 5:
                viol.append({"mech": "purity:value-depends-on-history", "key": list(key), "fid": fid, "point": [float(v) for v in y], "got": float(val),
                             "canonical": float(cv), "evaluations_before": nev, "live_instances": len(pool)})
    if c["xproc"] and xq:
        p = subprocess.run([sys.executable, "-W", "ignore", "-m", "vlib.child_run"],
                           input=json.dumps({"what": "bench-values", "queries": [[k, y] for k, y, v in xq]}),
                           capture_output=True, text=True, env=dict(os.environ, PYTHONHASHSEED="77"), timeout=600)
        if p.returncode != 0:
            raise RuntimeError("child failed: " + p.stderr[-800:])
        vals = json.loads(p.stdout.strip().splitlines()[-1])["values"]
        obs["fresh_interpreter_values"] = len(vals)
        for (k, y, v), s in zip(xq, vals):
            if repr(float(v)) != s:
                if len(viol) < 5:
                    viol.append({"mech": "purity:value-differs-in-fresh-interpreter", "key": k, "point": y, "here": float(v), "there": s})
    obs["evaluations"] = nev
    obs["instances_live_max"] = len(pool)
    obs["distinct_keys"] = len(keys_seen)
    fams = sorted({k[0][0] for k in keys_seen})
    obs["families"] = fams
    return {"violations": viol, "obs": obs, "nontrivial": nev >= 50,
            "keys": ["%s|%s|%s" % (k[0], k[1].hex()[:24], k[2]) for k in list(keys_seen)],
            "sample": {"history": c["i"], "evaluations": nev, "constructions": obs.get("constructions"), "families": fams} if c["i"] < 3 else None}


def finalize(obs, tier, stats):
    if len(obs.get("families", [])) < 8:
        return "not all eight families evaluated: %s" % obs.get("families"), {}
    if not obs.get("fresh_interpreter_values"):
        return "fresh-interpreter comparison never ran", {}
    return None, {}
