"""C09 - the inverse image is consistent with the image."""
import math

import numpy as np

from vlib import scenario, evolvent_model as em
from iOpt.evolvent.evolvent import Evolvent

LEVEL = "exploration"
EXH = {"quick": 14, "thorough": 18}
RULE = ("(a) exhaustive over every cell and subinterval for N=2..5, N*m <= 14 (quick) / 18 (thorough) on the unit box: inverse(centre) must be the left end of the "
        "subinterval whose image is that cell, inverse(image(x)) must be floor(x*n)/n for three probes per subinterval; (b) random cells for densities up "
        "to N*m = 50 with y = centre, interior points, points on faces / edges, the corners lower and upper; (c) arbitrary boxes (float, integer-typed, "
        "tiny, negative), arguments as arrays, lists, tuples and integer-typed values; GetPreimages must agree with GetInverseImage; (d) N=1: both maps "
        "affine within 4 ulp. The cell containing y is computed directly from y (never through the evolvent). Non-trivial: every case; distinct = (kind, N, m, range/index)."
       " A third of the random-cell cases use Solver-built evolvents; a further kind replaces the problem's bounds after the Solver was built, lets it iterate and checks inverse(image(x)) = x rounded down.")
ASSUMPTIONS = ["a point within rounding distance of a cell face may be attributed to either neighbouring cell",
               "on arbitrary boxes the rounding of the box->cube transform is bounded by 16 eps max(|lower|,|upper|)/side per axis"]
CHUNK = 1


def cases(tier, seed):
    out = []
    for N in (2, 3, 4, 5):
        for m in range(1, 26):
            if N * m > EXH[tier]:
                break
            n = 1 << (N * m)
            step = 1 << 12
            for a in range(0, n, step):
                out.append({"kind": "exh", "N": N, "m": m, "a": a, "b": min(n, a + step), "seed": seed})
    nr = 240 if tier == "quick" else 18000
    for i in range(nr):
        rng = scenario.rng_for(seed, "C09r", i)
        N = int(rng.integers(2, 6))
        m = int(rng.integers(1, 50 // N + 1))
        kind = "unit" if i % 2 == 0 else None
        lo, hi, bk = scenario.gen_box(rng, N, kind)
        if bk != "unit":
            m = min(m, 12)
        out.append({"kind": "rand", "N": N, "m": m, "lower": lo, "upper": hi, "box": bk, "i": i, "seed": seed,
                    "pts": 120 if tier == "quick" else 300})
        if i % 3 == 1:
            # the object under test lived on another box before (queries there, then SetBounds to this box)
            plo, phi, _ = scenario.gen_box(rng, N)
            out[-1]["prebox"] = [plo, phi]
        elif i % 3 == 2:
            # the Evolvent a Solver builds for this box and density
            out[-1]["via_solver"] = True
    for i in range(24 if tier == "quick" else 400):
        rng = scenario.rng_for(seed, "C09s", i)
        N = int(rng.integers(1, 6))
        lo, hi, bk = scenario.gen_box(rng, N)
        out.append({"kind": "solver-rebox", "N": N, "m": int(rng.integers(1, min(12, 50 // N) + 1)), "lower": lo, "upper": hi, "box": bk, "i": i, "seed": seed})
    for i in range(16 if tier == "quick" else 80):
        rng = scenario.rng_for(seed, "C09n1", i)
        lo, hi, bk = scenario.gen_box(rng, 1)
        out.append({"kind": "n1", "N": 1, "m": int(rng.integers(1, 51)), "lower": lo, "upper": hi, "box": bk, "i": i, "seed": seed})
        if i % 2 == 1:
            plo, phi, _ = scenario.gen_box(rng, 1)
            out[-1]["prebox"] = [plo, phi]
    return out


def candidates(y, lo, side, m, absmax):
    """Per-axis set of admissible cell indices of point y (both neighbours when within rounding of a face)."""
    q = (np.asarray(y, dtype=float) - lo) / side * float(2 ** m)
    delta = float(2 ** m) * 16 * np.finfo(float).eps * absmax / side + 2.0 ** -40
    lo_c = np.clip(np.floor(q - delta), 0, 2 ** m - 1).astype(np.int64)
    hi_c = np.clip(np.floor(q + delta), 0, 2 ** m - 1).astype(np.int64)
    return lo_c, hi_c


_WORKBUF = {}


def as_type(y, how, rng):
    if how == "workbuf":
        # one float64 work buffer of the caller, refilled in place before every query (a line scan does that)
        wb = _WORKBUF.get(len(y))
        if wb is None:
            wb = _WORKBUF[len(y)] = np.zeros(len(y), dtype=np.double)
        wb[:] = np.asarray(y, dtype=np.double)
        return wb
    if how == "array":
        return np.array(y, dtype=np.double)
    if how == "list":
        return [float(v) for v in y]
    if how == "tuple":
        return tuple(float(v) for v in y)
    if how == "f32":
        return np.array(y, dtype=np.double)
    return y


def check_point(ev, un, y_arg, y, lo, side, m, n, viol, obs, absmax, what):
    before = None
    if isinstance(y_arg, np.ndarray):
        before = y_arg.copy()
    xh = ev.GetInverseImage(y_arg)
    xp = ev.GetPreimages(y_arg)
    obs["inverse_calls"] = obs.get("inverse_calls", 0) + 2
    if before is not None and not np.array_equal(before, y_arg):
        viol.append({"mech": "inverse-modified-argument", "what": what})
    if not (xh == xp):
        if len(viol) < 5:
            viol.append({"mech": "GetPreimages-differs-from-GetInverseImage", "y": [float(v) for v in y], "inverse": float(xh), "preimages": float(xp)})
    xh = float(xh)
    k = xh * n
    if k != math.floor(k) or not (0 <= k < n):
        if len(viol) < 5:
            viol.append({"mech": "inverse-not-on-subinterval-grid", "y": [float(v) for v in y], "inverse": xh, "times_n": k, "what": what})
        return
    c, exact = em.cell_of_unit_image(un.GetImage(xh), m)
    lo_c, hi_c = candidates(y, lo, side, m, absmax)
    if np.any(c < lo_c) or np.any(c > hi_c):
        if len(viol) < 5:
            viol.append({"mech": "inverse-cell-does-not-contain-point", "y": [float(v) for v in y], "inverse": xh, "cell_of_image": c.tolist(),
                         "admissible_low": lo_c.tolist(), "admissible_high": hi_c.tolist(), "what": what, "m": m})
    if np.any(lo_c != hi_c):
        obs["face_points"] = obs.get("face_points", 0) + 1
    # half a cell width per axis, stated tolerance of the property
    img = ev.GetImage(xh)
    half = side / float(2 ** (m + 1))
    tol = half + 32 * np.finfo(float).eps * absmax
    if np.any(np.abs(img - np.asarray(y, dtype=float)) > tol):
        if len(viol) < 5:
            viol.append({"mech": "image-of-inverse-farther-than-half-cell", "y": [float(v) for v in y], "image": img.tolist(), "half_cell": half.tolist(), "what": what})


def make_evolvent(c, N, m, rng, obs):
    """the Evolvent for the case's box: fresh, or an object that answered queries on another box first and was then re-bounded"""
    if c.get("via_solver"):
        return em.solver_evolvent(c["lower"], c["upper"], N, m, rng, obs)
    if not c.get("prebox"):
        return Evolvent(c["lower"], c["upper"], N, m)
    plo, phi = np.array(c["prebox"][0], dtype=float), np.array(c["prebox"][1], dtype=float)
    ev = Evolvent(c["prebox"][0], c["prebox"][1], N, m)
    for q in range(4):
        y = plo + rng.random(N) * (phi - plo)
        ev.GetInverseImage(y)
        ev.GetPreimages(list(y))
        ev.GetImage(float(rng.random()))
    ev.SetBounds(c["lower"], c["upper"])
    obs["rebounded_objects"] = obs.get("rebounded_objects", 0) + 1
    return ev


def run_case(c):
    N, m, kind = c["N"], c["m"], c["kind"]
    _WORKBUF.clear()
    viol = []
    obs = {}
    n = 1 << (N * m)
    rng = scenario.rng_for(c["seed"], "C09run", "%s-%d-%d-%s" % (kind, N, m, c.get("a", c.get("i"))))
    if kind == "exh":
        ev = em.unit_evolvent(N, m)
        lo = np.zeros(N)
        side = np.ones(N)
        for i in range(c["a"], c["b"]):
            for x in em.probes(i, n, rng):
                y = ev.GetImage(x)
                xb = float(ev.GetInverseImage(y))
                obs["round_trips"] = obs.get("round_trips", 0) + 1
                if xb != i / n:
                    if len(viol) < 5:
                        viol.append({"mech": "inverse-of-image-not-rounded-down", "N": N, "m": m, "x": x, "expected": i / n, "got": xb})
            # the centre of the cell with linear index i (every cell is enumerated once over the sweep)
            j = np.array([(i >> (m * a)) & ((1 << m) - 1) for a in range(N)], dtype=np.int64)
            yc = (j + 0.5) / float(2 ** m)
            check_point(ev, ev, yc, yc, lo, side, m, n, viol, obs, 1.0, "centre")
        if c["b"] == n:
            xb = float(ev.GetInverseImage(ev.GetImage(1.0)))
            if xb != (n - 1) / n:
                viol.append({"mech": "inverse-of-image-not-rounded-down", "N": N, "m": m, "x": 1.0, "expected": (n - 1) / n, "got": xb})
            obs["x1_round_trip"] = 1
        return {"violations": viol, "obs": obs, "nontrivial": True, "key": "exh|%d|%d|%d" % (N, m, c["a"]),
                "sample": {"kind": "exhaustive", "N": N, "m": m, "range": [c["a"], c["b"]]} if c["a"] == 0 and m > 2 else None}
    if kind == "rand":
        lo = np.array(c["lower"], dtype=float)
        hi = np.array(c["upper"], dtype=float)
        side = hi - lo
        absmax = float(max(np.abs(lo).max(), np.abs(hi).max()))
        ev = make_evolvent(c, N, m, rng, obs)
        un = em.unit_evolvent(N, m)
        cw = side / float(2 ** m)
        kinds_seen = {}
        for p in range(c["pts"]):
            j = rng.integers(0, 2 ** m, N)
            u = rng.random()
            if u < 0.25:
                y = lo + (j + 0.5) * cw
                what = "centre"
            elif u < 0.6:
                y = lo + (j + rng.random(N)) * cw
                what = "interior"
            elif u < 0.85:
                f = rng.random(N)
                onface = rng.random(N) < 0.5
                if not onface.any():
                    onface[int(rng.integers(N))] = True
                f = np.where(onface, np.round(f), f)
                y = lo + (j + f) * cw
                what = "face/edge"
            elif u < 0.92:
                y = lo.copy()
                what = "corner-lower"
            else:
                y = hi.copy()
                what = "corner-upper"
            y = np.minimum(np.maximum(y, lo), hi)
            how = ["array", "list", "tuple", "workbuf", "workbuf"][int(rng.integers(5))]
            if how == "workbuf":
                obs["work_buffer_queries"] = obs.get("work_buffer_queries", 0) + 1
            check_point(ev, un, as_type(y, how, rng), y, lo, side, m, n, viol, obs, absmax, what + "/" + how)
            kinds_seen[what] = kinds_seen.get(what, 0) + 1
        # integer-typed arguments whenever integer points lie in the box
        ilo = np.ceil(lo).astype(int)
        ihi = np.floor(hi).astype(int)
        if np.all(ilo <= ihi):
            for p in range(12):
                yi = [int(rng.integers(a, b + 1)) for a, b in zip(ilo, ihi)]
                arg = yi if p % 2 == 0 else np.array(yi)
                check_point(ev, un, arg, np.array(yi, dtype=float), lo, side, m, n, viol, obs, absmax, "integer-typed")
                obs["integer_typed_points"] = obs.get("integer_typed_points", 0) + 1
        # inverse(image(x)) on this box, when the centre is far from faces compared with rounding
        if float((side / 2 ** (m + 1)).min()) > 1e4 * np.finfo(float).eps * absmax:
            for p in range(40):
                x = float(rng.random()) if p > 2 else [0.0, 1.0, float(np.nextafter(1.0, 0))][p]
                if p % 4 == 3:
                    x = 1.0 - 10 ** rng.uniform(-15, -9.1)      # the last 1e-9 of the curve
                xb = float(ev.GetInverseImage(ev.GetImage(x)))
                exp = min(math.floor(x * n), n - 1) / n
                obs["round_trips"] = obs.get("round_trips", 0) + 1
                if xb != exp:
                    if len(viol) < 5:
                        viol.append({"mech": "inverse-of-image-not-rounded-down", "N": N, "m": m, "x": x, "expected": exp, "got": xb,
                                     "lower": c["lower"], "upper": c["upper"]})
        for k, v in kinds_seen.items():
            obs["pts_" + k] = v
        obs["max_Nm"] = N * m
        return {"violations": viol, "obs": obs, "nontrivial": True, "key": "rand|%d|%d|%d" % (N, m, c["i"]),
                "sample": {"kind": "random cells", "N": N, "m": m, "box": c["box"], "lower": c["lower"], "upper": c["upper"], "points": dict(kinds_seen)} if c["i"] < 3 else None}
    if kind == "solver-rebox":
        # Solver.evolvent after the problem object was given other bounds and the Solver worked: inverse(image(x)) is x rounded
        # down to the subinterval grid whatever box the object is on (the law does not mention the box)
        lo = np.array(c["lower"], dtype=float)
        hi = np.array(c["upper"], dtype=float)
        absmax = float(max(np.abs(lo).max(), np.abs(hi).max()))
        smin = 0.2 * (hi - lo)          # the replaced bounds keep at least a fifth of every side
        if N > 1 and not float((smin / 2 ** (m + 1)).min()) > 1e4 * np.finfo(float).eps * absmax:
            return {"violations": [], "obs": {"solver_rebox_skipped_rounding": 1}, "nontrivial": False, "key": None}
        tol1 = 64 * float(np.spacing(absmax)) / float(smin.min()) + 1e-12
        ev = em.solver_evolvent(c["lower"], c["upper"], N, m, rng, obs, reassign=True)
        tested = 0
        for p in range(60):
            x = float(rng.random()) if p > 2 else [0.0, 1.0, 0.5][p]
            y = ev.GetImage(x)
            exp = min(math.floor(x * n), n - 1) / n if N > 1 else x
            for what, xb in (("GetInverseImage", float(ev.GetInverseImage(y))), ("GetPreimages", float(np.atleast_1d(ev.GetPreimages(y))[0]))):
                tested += 1
                ok = xb == exp if N > 1 else abs(xb - x) <= tol1
                if not ok and len(viol) < 5:
                    viol.append({"mech": "inverse-of-image-not-rounded-down", "N": N, "m": m, "x": x, "expected": exp, "got": xb, "call": what,
                                 "what": "Solver.evolvent after the problem's bounds were replaced and the Solver iterated"})
        obs["solver_rebox_round_trips"] = tested
        return {"violations": viol, "obs": obs, "nontrivial": True, "key": "solver-rebox|%d|%d|%d" % (N, m, c["i"]), "sample": None}
    if kind == "n1":
        lo = float(c["lower"][0])
        hi = float(c["upper"][0])
        ev = Evolvent(c["lower"], c["upper"], 1, m)
        tol = 4 * float(np.spacing(max(abs(lo), abs(hi), hi - lo)))
        for p in range(200):
            x = float(rng.random()) if p > 1 else float(p)
            y = ev.GetImage(x)
            ref = lo + x * (hi - lo)
            if abs(float(y[0]) - ref) > tol:
                if len(viol) < 5:
                    viol.append({"mech": "n1-image-not-affine", "x": x, "image": float(y[0]), "expected": ref})
            yy = lo + float(rng.random()) * (hi - lo) if p > 1 else [lo, hi][p]
            for arg in (np.array([yy]), [yy], (yy,)):
                xi = float(ev.GetInverseImage(arg))
                xr = (yy - lo) / (hi - lo)
                if abs(xi - xr) > 4 * np.finfo(float).eps * max(1.0, max(abs(lo), abs(hi)) / (hi - lo)):
                    if len(viol) < 5:
                        viol.append({"mech": "n1-inverse-not-affine", "y": yy, "inverse": xi, "expected": xr})
                if float(ev.GetPreimages(arg)) != xi:
                    viol.append({"mech": "GetPreimages-differs-from-GetInverseImage", "y": yy})
            obs["n1_points"] = obs.get("n1_points", 0) + 1
        ilo, ihi = math.ceil(lo), math.floor(hi)
        if ilo <= ihi:
            for p in range(6):
                yi = int(rng.integers(ilo, ihi + 1))
                xi = float(ev.GetInverseImage([yi]))
                xr = (yi - lo) / (hi - lo)
                obs["integer_typed_points"] = obs.get("integer_typed_points", 0) + 1
                if abs(xi - xr) > 4 * np.finfo(float).eps * max(1.0, max(abs(lo), abs(hi)) / (hi - lo)):
                    if len(viol) < 5:
                        viol.append({"mech": "n1-inverse-not-affine", "y": yi, "inverse": xi, "expected": xr, "what": "integer-typed"})
                y = ev.GetImage(0.3)
                ref = lo + 0.3 * (hi - lo)
                if abs(float(y[0]) - ref) > tol:
                    if len(viol) < 5:
                        viol.append({"mech": "n1-image-not-affine", "x": 0.3, "image": float(y[0]), "expected": ref, "what": "after integer-typed inverse"})
        return {"violations": viol, "obs": obs, "nontrivial": True, "key": "n1|%d|%d" % (m, c["i"])}
    raise ValueError(kind)


def finalize(obs, tier, stats):
    if obs.get("max_Nm", 0) < 48:
        return "random cells never reached N*m >= 48", {}
    for k in ("round_trips", "inverse_calls", "face_points", "integer_typed_points", "pts_corner-lower", "pts_corner-upper", "n1_points", "x1_round_trip", "rebounded_objects", "work_buffer_queries", "evolvents_built_by_a_solver", "solver_rebox_round_trips"):
        if not obs.get(k):
            return "probe class %s never exercised" % k, {}
    return None, {}
