"""C07 - the evolvent visits every grid cell of the box exactly once."""
import numpy as np

from vlib import scenario, evolvent_model as em
from iOpt.evolvent.evolvent import Evolvent

LEVEL = "exploration"
EXH = {"quick": 16, "thorough": 20}
WIN = {"quick": 256, "thorough": 2000}


def EXHAUSTIVE(tier):
    return False    # exhaustive only for N*m <= EXH[tier]; larger densities are sampled by windows


RULE = ("(a) exhaustive sweep of all 2^(N*m) subintervals for every (N,m), N=2..5, with N*m <= 16 (quick) / 20 (thorough), three probes per "
        "subinterval (left end, random interior point, last double before the right end): each image must be exactly a cell centre of the "
        "unit box, the three probes must agree, the cells are collected in a bitmap that must come out full with no cell hit twice, and "
        "GetImage(1.0) must be the last subinterval's cell; (b) for larger densities up to N*m = 50, windows of consecutive subintervals at "
        "the start, the end, around every digit-carry position and at random positions: exact centres, probes agree, cells distinct inside "
        "the window; (c) arbitrary boxes: image = lower + u*side within 8 ulp and inside the box; (d) N=1: the image is the affine map, lies "
        "in the closed cell of its subinterval and inside the segment; (e) the same x passed as Python float/int/bool, numpy float64/float32/longdouble/int64/int32 scalars must give the identical image. Non-trivial: every case; distinct = distinct (N, m, range/window/box)."
       ' A third of the box cases examine the public Solver.evolvent of a Solver configured with the box and density (a second live Solver with the same N and m on another box); windows of consecutive subintervals on boxes must land in distinct cells of the configured grid; SetBounds sequences include nearby boxes.')
ASSUMPTIONS = ["structural checks on the unit box only (exact dyadic arithmetic); arbitrary boxes compared with the affine map within 8 ulp of max(|lower|,|upper|,side)",
               "N=1: C09 defines the map as affine, so 'centre of the cell' is read as 'a point of the cell of subinterval i'",
               "N*m <= 50 so that i/2^(N*m) is exactly representable"]
CHUNK = 1


def cases(tier, seed):
    out = []
    for N in (2, 3, 4, 5):
        for m in range(1, 26):
            if N * m > EXH[tier]:
                break
            n = 1 << (N * m)
            step = 1 << 14
            for a in range(0, n, step):
                out.append({"kind": "exh", "N": N, "m": m, "a": a, "b": min(n, a + step), "seed": seed})
    k = 0
    for N in (2, 3, 4, 5):
        for m in range(1, 26):
            if N * m <= EXH[tier] or N * m > 50:
                continue
            rng = scenario.rng_for(seed, "C07w", k)
            k += 1
            starts = em.window_starts(N, m, WIN[tier], rng, extra_random=3 if tier == "quick" else 8)
            per = 6
            for c in range(0, len(starts), per):
                out.append({"kind": "win", "N": N, "m": m, "starts": starts[c:c + per], "W": WIN[tier], "seed": seed})
    nb = 60 if tier == "quick" else 600
    for i in range(nb):
        rng = scenario.rng_for(seed, "C07b", i)
        N = int(rng.integers(1, 6))
        m = int(rng.integers(1, 50 // N + 1)) if N > 1 else int(rng.integers(1, 51))
        if rng.random() < 0.6:
            m = min(m, 12)
        lo, hi, kind = scenario.gen_box(rng, N)
        out.append({"kind": "box", "N": N, "m": m, "lower": lo, "upper": hi, "box": kind, "seed": seed, "i": i,
                    "nx": 150 if tier == "quick" else 400})
    for m in (1, 2, 3, 7, 10, 20, 33, 50):
        out.append({"kind": "n1", "N": 1, "m": m, "seed": seed})
    # the same x given as Python float / int, numpy float64 / float32 / longdouble / integer scalars must land in the same cell
    k = 0
    for N in (1, 2, 3, 4, 5):
        for m in sorted({1, 2, 3, 5, 8, 10, 12, 50 // N}):
            if N * m > 50:
                continue
            out.append({"kind": "argtypes", "N": N, "m": m, "seed": seed, "i": k})
            k += 1
    # one Evolvent object whose bounds are replaced with SetBounds between queries: "for arbitrary bounds" also means
    # the bounds in force now
    for i in range(24 if tier == "quick" else 240):
        out.append({"kind": "rebound", "i": i, "seed": seed, "N": 0, "m": 0})
    return out


def _img_cell(ev, x, m, viol, what):
    y = ev.GetImage(x)
    j, exact = em.cell_of_unit_image(y, m)
    if not exact and len(viol) < 5:
        viol.append({"mech": "image-not-a-cell-centre", "x": x, "image": y.tolist(), "what": what})
    return j, exact


def run_case(c):
    N, m = c["N"], c["m"]
    viol = []
    obs = {}
    kind = c["kind"]
    rng = scenario.rng_for(c["seed"], "C07run", "%s-%d-%d-%s" % (kind, N, m, c.get("a", c.get("i", 0))))
    if kind == "exh":
        ev = em.unit_evolvent(N, m)
        n = 1 << (N * m)
        bits = np.zeros(n, dtype=np.uint8)
        images = 0
        for i in range(c["a"], c["b"]):
            js = []
            for x in em.probes(i, n, rng):
                j, exact = _img_cell(ev, x, m, viol, "subinterval %d of 2^%d" % (i, N * m))
                js.append(j)
                images += 1
            if not (np.array_equal(js[0], js[1]) and np.array_equal(js[0], js[2])):
                if len(viol) < 5:
                    viol.append({"mech": "probes-of-one-subinterval-disagree", "N": N, "m": m, "i": i, "cells": [j.tolist() for j in js]})
            if np.all(js[0] >= 0) and np.all(js[0] < 2 ** m):
                li = em.linear_index(js[0], m)
                if bits[li]:
                    if len(viol) < 5:
                        viol.append({"mech": "cell-visited-twice", "N": N, "m": m, "i": i, "cell": js[0].tolist()})
                bits[li] = 1
        if c["b"] == n:
            j1, _ = _img_cell(ev, 1.0, m, viol, "x=1")
            jl, _ = _img_cell(ev, (n - 1) / n, m, viol, "last subinterval")
            images += 2
            if not np.array_equal(j1, jl):
                viol.append({"mech": "x=1-not-last-cell", "N": N, "m": m, "cell_of_1": j1.tolist(), "last_cell": jl.tolist()})
            obs["x1_checked"] = 1
        obs.update({"exh_subintervals": c["b"] - c["a"], "images": images})
        return {"violations": viol, "obs": obs, "nontrivial": True, "key": "exh|%d|%d|%d" % (N, m, c["a"]),
                "agg": {"kind": "exh", "N": N, "m": m, "a": c["a"], "b": c["b"], "bitmap": em.pack_bitmap(bits)},
                "sample": {"kind": "exhaustive sweep", "N": N, "m": m, "subintervals": [c["a"], c["b"]], "images": images} if c["a"] == 0 else None}
    if kind == "argtypes":
        ev = em.unit_evolvent(N, m) if N > 1 else Evolvent([0.0], [1.0], 1, m)
        n = 1 << (N * m)
        xs = [0.0, 1.0, 0.5, 0.25, 0.75, 0.125, 1.0 - 2.0 ** -10, 2.0 ** -10, 1.0 - 2.0 ** -20, 0.3, 0.7, float(rng.random()), float(rng.random())]
        xs += [float(rng.integers(0, 1 << 20)) / (1 << 20) for _ in range(6)] + [float(np.float32(rng.random())) for _ in range(6)]
        types = [("float", float), ("np.float64", np.float64), ("np.float32", np.float32), ("np.longdouble", np.longdouble)]
        npairs = 0
        for x in xs:
            ref = np.array(ev.GetImage(float(x)), dtype=float, copy=True)
            cands = []
            for name, T in types:
                v = T(x)
                if float(v) == float(x):           # the value itself must be unchanged by the conversion
                    cands.append((name, v))
            if x in (0.0, 1.0):
                cands += [("int", int(x)), ("np.int64", np.int64(int(x))), ("np.int32", np.int32(int(x))), ("bool", bool(x))]
            for name, v in cands:
                try:
                    got = np.array(ev.GetImage(v), dtype=float, copy=True)
                except Exception as e:
                    viol.append({"mech": "image-depends-on-argument-type", "N": N, "m": m, "x": x, "type": name, "exc": repr(e)})
                    continue
                npairs += 1
                if N == 1:
                    # the 1-D map is affine arithmetic carried out in the argument's own precision: equal up to its rounding
                    same = got.shape == ref.shape and bool(np.all(np.abs(got - ref) <= (2.0 ** -21 if name == "np.float32" else 2.0 ** -50)))
                else:
                    same = got.shape == ref.shape and np.array_equal(got, ref)      # cell centres: identical
                if not same:
                    if len(viol) < 6:
                        viol.append({"mech": "image-depends-on-argument-type", "N": N, "m": m, "x": x, "type": name, "image": got.tolist(),
                                     "image_of_python_float": ref.tolist()})
            if x == 1.0 and N > 1:
                j1, _ = em.cell_of_unit_image(ref, m)
                jl, _ = em.cell_of_unit_image(ev.GetImage((n - 1) / n), m)
                if not np.array_equal(j1, jl):
                    viol.append({"mech": "x=1-not-last-cell", "N": N, "m": m, "cell_of_1": j1.tolist(), "last_cell": jl.tolist()})
        obs["argument_type_pairs"] = npairs
        obs["argument_types"] = [t[0] for t in types] + ["int", "np.int64", "np.int32", "bool"]
        return {"violations": viol, "obs": obs, "nontrivial": True, "key": "argtypes|%d|%d" % (N, m),
                "sample": {"kind": "argument types", "N": N, "m": m, "pairs": npairs} if c["i"] == 0 else None}
    if kind == "win":
        ev = em.unit_evolvent(N, m)
        n = 1 << (N * m)
        images = 0
        for s in c["starts"]:
            seen = {}
            for i in range(s, min(n, s + c["W"])):
                js = []
                for x in em.probes(i, n, rng):
                    j, exact = _img_cell(ev, x, m, viol, "subinterval %d of 2^%d" % (i, N * m))
                    js.append(j)
                    images += 1
                if not (np.array_equal(js[0], js[1]) and np.array_equal(js[0], js[2])):
                    if len(viol) < 5:
                        viol.append({"mech": "probes-of-one-subinterval-disagree", "N": N, "m": m, "i": i, "cells": [j.tolist() for j in js]})
                t = tuple(int(v) for v in js[0])
                if t in seen and len(viol) < 5:
                    viol.append({"mech": "cell-visited-twice", "N": N, "m": m, "i": i, "other": seen[t], "cell": list(t)})
                seen[t] = i
            if s + c["W"] >= n:
                j1, _ = _img_cell(ev, 1.0, m, viol, "x=1")
                jl, _ = _img_cell(ev, (n - 1) / n, m, viol, "last subinterval")
                if not np.array_equal(j1, jl):
                    viol.append({"mech": "x=1-not-last-cell", "N": N, "m": m, "cell_of_1": j1.tolist(), "last_cell": jl.tolist()})
                obs["x1_checked"] = obs.get("x1_checked", 0) + 1
                obs["end_windows"] = obs.get("end_windows", 0) + 1
        obs.update({"windows": len(c["starts"]), "window_subintervals": len(c["starts"]) * c["W"], "images": images, "max_Nm": N * m})
        return {"violations": viol, "obs": obs, "nontrivial": True, "key": "win|%d|%d|%s" % (N, m, c["starts"][:2]),
                "sample": {"kind": "windows", "N": N, "m": m, "starts": c["starts"][:3], "W": c["W"]} if N * m >= 40 else None}
    if kind == "box":
        lo = np.array(c["lower"], dtype=float)
        hi = np.array(c["upper"], dtype=float)
        side = hi - lo
        if c["i"] % 3 == 1:
            # the curve as the optimiser's user meets it: Solver.evolvent of a Solver configured with this box and density
            ev = em.solver_evolvent(c["lower"], c["upper"], N, m, rng, obs)
        else:
            ev = Evolvent(c["lower"], c["upper"], N, m)
        un = em.unit_evolvent(N, m)
        tol = 8 * np.spacing(np.maximum(np.maximum(np.abs(lo), np.abs(hi)), side))
        xs = [0.0, 1.0, 0.5, float(np.nextafter(1.0, 0.0))] + [float(v) for v in rng.random(c["nx"])]
        for x in xs:
            y = ev.GetImage(x)
            u = un.GetImage(x)
            ref = lo + u * side
            if np.any(np.abs(y - ref) > tol):
                if len(viol) < 5:
                    viol.append({"mech": "image-off-affine-map", "x": x, "image": y.tolist(), "expected": ref.tolist(), "lower": c["lower"], "upper": c["upper"]})
            if np.any(y < lo - tol) or np.any(y > hi + tol):
                if len(viol) < 5:
                    viol.append({"mech": "image-outside-box", "x": x, "image": y.tolist(), "lower": c["lower"], "upper": c["upper"]})
            if N == 1 and not (np.all(y >= lo - tol) and np.all(y <= hi + tol)):
                pass
        if N > 1 and N * m <= 20:
            # on a box too: a window of consecutive subintervals lands in pairwise distinct cells of the configured grid
            n = 1 << (N * m)
            a0 = int(rng.integers(0, max(1, n - 256)))
            seen = {}
            gtol = np.maximum(1e-6, 8.0 * np.spacing(np.maximum(np.abs(lo), np.abs(hi))) / side * (2.0 ** m))
            if np.all(gtol < 0.1):
                for i in range(a0, min(n, a0 + 256)):
                    q = (ev.GetImage((i + 0.5) / n) - lo) / side * (2.0 ** m) - 0.5
                    j = np.rint(q)
                    if np.any(np.abs(q - j) > gtol) or np.any(j < 0) or np.any(j >= 2 ** m):
                        if len(viol) < 5:
                            viol.append({"mech": "box-image-not-a-cell-centre-of-the-configured-grid", "i": i, "N": N, "m": m, "grid_coordinate": q.tolist(),
                                         "lower": c["lower"], "upper": c["upper"]})
                    t = tuple(int(v) for v in j)
                    if t in seen and len(viol) < 5:
                        viol.append({"mech": "two-subintervals-one-cell", "i": i, "other": seen[t], "cell": list(t), "N": N, "m": m, "lower": c["lower"], "upper": c["upper"]})
                    seen[t] = i
                obs["box_window_cells"] = len(seen)
        obs.update({"box_images": len(xs), "boxes": 1})
        return {"violations": viol, "obs": obs, "nontrivial": True, "key": "box|%d|%d|%d" % (N, m, c["i"]),
                "sample": {"kind": "box", "N": N, "m": m, "lower": c["lower"], "upper": c["upper"], "points": len(xs)} if c["i"] < 2 else None}
    if kind == "rebound":
        rng = scenario.rng_for(c["seed"], "C07rb", c["i"])
        N = int(rng.integers(1, 6))
        m = int(rng.integers(1, min(12, 50 // N) + 1))
        un = em.unit_evolvent(N, m)
        ev = None
        twin = None
        nb = 0
        for b in range(int(rng.integers(2, 7))):
            if ev is not None and rng.random() < 0.3:
                lo_l, hi_l, bk = scenario.nearby_box(rng, lo_l, hi_l)      # a slight correction of the box in force
                obs["rebound_to_a_nearby_box"] = obs.get("rebound_to_a_nearby_box", 0) + 1
            else:
                lo_l, hi_l, bk = scenario.gen_box(rng, N)
            if ev is None:
                if c["i"] % 2:
                    # two objects built from the caller's own float64 bound arrays: moving the first with SetBounds must leave the second on its box
                    first_lo, first_hi = np.array(lo_l, dtype=np.double), np.array(hi_l, dtype=np.double)
                    ev = Evolvent(first_lo, first_hi, N, m)
                    twin = (Evolvent(first_lo, first_hi, N, m), first_lo.copy(), first_hi.copy())
                    obs["twin_objects"] = 1
                else:
                    ev = Evolvent(lo_l, hi_l, N, m) if rng.random() < 0.7 else Evolvent([], [], N, m)
                if len(np.atleast_1d(ev.lowerBoundOfFloatVariables)) == 0:
                    ev.SetBounds(lo_l, hi_l)
            else:
                ev.SetBounds(np.array(lo_l, dtype=float) if rng.random() < 0.5 else lo_l, np.array(hi_l, dtype=float) if rng.random() < 0.5 else hi_l)
            nb += 1
            lo = np.array(lo_l, dtype=float)
            hi = np.array(hi_l, dtype=float)
            side = hi - lo
            tol = 8 * np.spacing(np.maximum(np.maximum(np.abs(lo), np.abs(hi)), side))
            for x in [0.0, 1.0] + [float(v) for v in rng.random(int(rng.integers(1, 12)))]:
                y = ev.GetImage(x)
                ref = lo + un.GetImage(x) * side
                obs["rebound_images"] = obs.get("rebound_images", 0) + 1
                if np.any(np.abs(y - ref) > tol) or np.any(y < lo - tol) or np.any(y > hi + tol):
                    if len(viol) < 5:
                        viol.append({"mech": "image-not-in-current-box", "x": x, "image": y.tolist(), "expected": ref.tolist(), "lower": lo_l, "upper": hi_l,
                                     "bounds_set": nb, "N": N, "m": m})
        if twin is not None:
            tev, tlo, thi = twin
            tside = thi - tlo
            ttol = 8 * np.spacing(np.maximum(np.maximum(np.abs(tlo), np.abs(thi)), tside))
            for x in [0.0, 1.0, float(rng.random()), float(rng.random())]:
                y = tev.GetImage(x)
                ref = tlo + un.GetImage(x) * tside
                obs["twin_images"] = obs.get("twin_images", 0) + 1
                if np.any(np.abs(y - ref) > ttol):
                    if len(viol) < 5:
                        viol.append({"mech": "image-not-in-current-box", "x": x, "image": y.tolist(), "expected": ref.tolist(), "lower": tlo.tolist(), "upper": thi.tolist(),
                                     "what": "a second object built from the same bound arrays, after SetBounds on the first", "N": N, "m": m})
        obs["rebound_objects"] = 1
        return {"violations": viol, "obs": obs, "nontrivial": True, "key": "rebound|%d" % c["i"],
                "sample": {"kind": "SetBounds sequence on one object", "N": N, "m": m, "boxes": nb} if c["i"] < 2 else None}
    if kind == "n1":
        ev = em.unit_evolvent(1, m)
        n = 1 << m
        cnt = 0
        idxs = list(range(min(n, 512))) + [n - 1, n // 2] + [int(rng.integers(0, n)) for _ in range(300)]
        for i in idxs:
            for x in em.probes(i, n, rng):
                y = float(ev.GetImage(x)[0])
                cnt += 1
                t1 = 2.0 ** -52      # (x-0.5)+0.5 rounds once or twice: 'exact up to floating-point rounding'
                if not (i / n - t1 <= y <= (i + 1) / n + t1) or abs(y - x) > t1:
                    if len(viol) < 5:
                        viol.append({"mech": "n1-image-not-affine", "m": m, "x": x, "image": y})
        y1 = float(ev.GetImage(1.0)[0])
        if y1 != 1.0:
            viol.append({"mech": "n1-image-not-affine", "m": m, "x": 1.0, "image": y1})
        obs.update({"n1_images": cnt})
        return {"violations": viol, "obs": obs, "nontrivial": True, "key": "n1|%d" % m}
    raise ValueError(kind)


def finalize(obs, tier, stats):
    if not obs.get("evolvents_built_by_a_solver") or not obs.get("box_window_cells"):
        return "no Solver-built evolvent / no window on a box was examined", {}
    viol = []
    full = {}
    groups = {}
    for idx, a in stats["agg"]:
        groups.setdefault((a["N"], a["m"]), []).append((idx, a))
    for (N, m), lst in sorted(groups.items()):
        n = 1 << (N * m)
        total = np.zeros(n, dtype=np.uint16)
        covered = 0
        for idx, a in lst:
            total += em.unpack_bitmap(a["bitmap"], n)
            covered += a["b"] - a["a"]
        if covered != n:
            return "exhaustive sweep of (N=%d,m=%d) incomplete: %d of %d subintervals" % (N, m, covered, n), {}
        if int((total == 0).sum()) or int((total > 1).sum()):
            miss = int(np.argmax(total == 0)) if (total == 0).any() else None
            dup = int(np.argmax(total > 1)) if (total > 1).any() else None
            viol.append({"mech": "not-a-bijection", "N": N, "m": m, "cells_never_reached": int((total == 0).sum()),
                         "cells_hit_twice": int((total > 1).sum()), "first_missing_linear_index": miss, "first_dup_linear_index": dup,
                         "case_index": lst[0][0]})
        full["N%d_m%d" % (N, m)] = n
    extra = {"bijection_verified_cells": full}
    need_nm = 50
    if obs.get("max_Nm", 0) < need_nm:
        return "windows never reached N*m = 50", extra, viol
    if not obs.get("end_windows") or not obs.get("x1_checked") or not obs.get("boxes") or not obs.get("n1_images") or not obs.get("rebound_images") or not obs.get("twin_images"):
        return "a probe class was never exercised", extra, viol
    return None, extra, viol
