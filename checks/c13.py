"""C13 - listener contract: complete, ordered, non-interfering notification."""
import contextlib
import io
import os
import re
import shutil
import tempfile
import warnings

import numpy as np

from vlib import ambient, scenario, record
from iOpt.method.listener import Listener

LEVEL = "exploration"
RULE = ("(a) ALL 16 subsets of the four base-class callbacks (classes built dynamically from Listener: direct subclasses, two-level hierarchies, mixins before Listener, bare leaves inheriting every override) x 4 batchings x N in {1,2,3}: no API call may raise, each overridden "
        "callback must be delivered exactly as specified (once before the first trial; once per DoGlobalIteration call with exactly that call's new trials in evaluation "
        "order; once per Solve with the returned solution), and the trial log and result must equal the listener-free run; (b) the console listener in its 3 modes (also refined by a user subclass) and "
        "(c) the four painters in every documented mode (1-D painters on N=1, section/N-D painters on N=2,3), alone and combined with the console listener, with and "
        "without refinement: same non-interference comparison (painter probes of the objective are separated from trials by a forwarding proxy), and the console "
        "listener's final block is parsed from captured stdout and compared with the Solution fields. (d) the repository's shipped example scripts are executed twice, as written and with every listener they attach left out: identical trial logs and results. Non-trivial: every case; distinct = (kind, N, subset/mode, batching, seed index)."
       ' A quarter of the scenarios fill in SolverParameters.startPoint; a quarter of the console cases run on boxes of nanometre-sized coordinates (the printed point is compared numerically).')
ASSUMPTIONS = ["DoGlobalIteration(0) is not issued with shipped listeners attached (the statement speaks of the new trials of a call)",
               "matplotlib runs with the Agg backend; figures are closed after each run"]
CHUNK = 2
CB = ["BeforeMethodStart", "OnEndIteration", "OnMethodStop", "OnRefrash"]
ZERO_BATCHING = [["iter", 2], ["iter", 0], ["iter", 3], ["iter", 0], ["solve"]]      # empty batches: one notification each, with no new trials
BATCHINGS = [[["solve"]],
             [["iter", 3], ["solve"]],
             [["iter", 1], ["iter", 1], ["iter", 1], ["iter", 1], ["solve"]],
             [["iter", 5], ["iter", 2], ["solve"], ["solve"]]]


def hostile_bounds(rng, N):
    """bounds for which a step-accumulating grid of 150 points overshoots (regression input for the arange defect, D9)"""
    lo, hi = [], []
    for i in range(N):
        for tries in range(4000):
            a = float(rng.uniform(-100, 100))
            b = a + float(10 ** rng.uniform(-1, 2))
            if len(np.arange(a, b, (b - a) / 150)) != 150:
                break
        lo.append(a)
        hi.append(b)
    return lo, hi


def base_scn(rng, N, iters, refine=False, hostile=False, scaled=None):
    lo, hi, kind = scenario.gen_box(rng, N, "float")
    if hostile:
        lo, hi = hostile_bounds(rng, N)
        kind = "hostile-grid"
    obj = scenario.gen_objective(rng, N, ["cones", "sines", "wells"])
    if scaled:
        # extreme magnitudes of the objective values (x 1e50, x 1e-50, + 1e9, integer-valued): what the console listener has to print
        obj = {"fam": "scaled", "base": obj, "mode": scaled}
    m = 10 if N == 1 else int(rng.integers(4, 9))
    scn = {"N": N, "lower": lo, "upper": hi, "box": kind, "obj": obj, "r": float(rng.choice([2.0, 3.0, 4.0])),
           "eps": 1e-3 if N == 1 else max(2.0 ** -m, 0.01), "iters": iters, "m": m, "refine": refine}
    if rng.random() < 0.25:
        # the documented SolverParameters.startPoint is filled in (a point strictly inside the box)
        scn["start_point"] = [float(a + (b - a) * rng.uniform(0.1, 0.9)) for a, b in zip(lo, hi)]
    return scn


PAINTERS_1D = [("static", {"mode": "objective function"}), ("static", {"mode": "objective function", "isPointsAtBottom": True}),
               ("static", {"mode": "only points"}), ("static", {"mode": "approximation"}), ("static", {"mode": "interpolation"}),
               ("anim", {"toPaintObjFunc": True}), ("anim", {"toPaintObjFunc": False, "isPointsAtBottom": True})]
PAINTERS_ND = [("static", {"mode": "objective function", "indx": 0}), ("static", {"mode": "objective function", "indx": 1, "isPointsAtBottom": True}),
               ("static", {"mode": "only points", "indx": 1}), ("static", {"mode": "approximation", "indx": 0}),
               ("static", {"mode": "interpolation", "indx": 0}), ("static", {"mode": "interpolation", "indx": 1, "isPointsAtBottom": True}),
               ("staticnd", {"mode": "lines layers", "calc": "objective function"}), ("staticnd", {"mode": "lines layers", "calc": "interpolation"}),
               ("staticnd", {"mode": "surface", "calc": "approximation"}), ("staticnd", {"mode": "surface", "calc": "interpolation"}),
               ("animnd", {"toPaintObjFunc": True}), ("animnd", {"toPaintObjFunc": False})]


def cases(tier, seed):
    out = []
    reps = 1 if tier == "quick" else 40
    idx = 0
    for rep in range(reps):
        for N in (1, 2, 3):
            for mask in range(16):
                for b in range(4):
                    out.append({"kind": "subset", "N": N, "mask": mask, "b": b, "seed": seed, "idx": idx, "refine": (mask + b + rep) % 5 == 0})
                    idx += 1
    for rep in range(reps * 2):
        for N in (1, 2, 3):
            for b in range(4):
                out.append({"kind": "multi", "N": N, "b": b, "seed": seed, "idx": idx, "refine": (b + rep) % 3 == 0})
                idx += 1
    for rep in range(reps):
        for N in (1, 2, 3):
            for mode in ("full", "custom", "result"):
                for b in range(4):
                    out.append({"kind": "console", "N": N, "mode": mode, "b": b, "seed": seed, "idx": idx, "refine": (b + rep) % 2 == 1})
                    idx += 1
    for rep in range(reps):
        for N in (1, 2, 3):
            plist = PAINTERS_1D if N == 1 else PAINTERS_ND
            for pi, (pk, kw) in enumerate(plist):
                for combo in (False, True):
                    heavy = kw.get("mode") == "approximation" or kw.get("calc") == "approximation"
                    if tier == "quick" and heavy and (combo or N == 3):
                        continue
                    out.append({"kind": "painter", "N": N, "painter": pk, "kw": kw, "console": combo, "b": (pi + rep) % 2, "seed": seed, "idx": idx,
                                "refine": (pi + rep + N) % 3 == 0, "hostile": (not combo) and not heavy})
                    idx += 1
    # interpolation painters on runs whose trials coincide in the plotted coordinates (eps at the grid resolution)
    for rep in range(reps):
        for N in (2, 3):
            for pk, kw in PAINTERS_ND:
                if kw.get("mode") == "interpolation" or kw.get("calc") == "interpolation":
                    out.append({"kind": "painter", "N": N, "painter": pk, "kw": kw, "console": False, "b": 0, "seed": seed, "idx": idx,
                                "refine": False, "coincident": True})
                    idx += 1
    # one listener OBJECT serves two solvers one after the other (a console listener and a recording partial listener)
    for rep in range(reps):
        for N in (1, 2, 3):
            for mode in ("full", "custom", "result"):
                out.append({"kind": "reuse", "N": N, "mode": mode, "b": (N + rep) % 4, "seed": seed, "idx": idx, "refine": (N + rep) % 2 == 0})
                idx += 1
    # the repository's own example scripts (console and painter listeners as their authors attach them), run with and without
    # their listeners: identical trial logs and results
    out += [dict(c, idx=idx + n) for n, c in enumerate(ambient.ambient_cases(tier)) if c["ambient"] == "script"]
    return out


def make_subset_listener(mask, events, problem, shape=0):
    """shape: how the overriding methods reach the listener's class
       0 direct subclass of Listener; 1 two levels (an intermediate class overrides some callbacks, the leaf the others);
       2 a mixin placed before Listener; 3 a leaf with an empty body inheriting every override from an intermediate class."""
    ns = {}
    if mask & 1:
        def BeforeMethodStart(self, method):
            events.append({"cb": "before", "logged": len(problem.log)})
        ns["BeforeMethodStart"] = BeforeMethodStart
    if mask & 2:
        def OnEndIteration(self, savedNewPoints, solution):
            events.append({"cb": "iter", "items": [np.array(it.GetY().floatVariables, dtype=float, copy=True) for it in savedNewPoints],
                           "zs": [it.GetZ() for it in savedNewPoints], "sol": record.snap_solution(solution)})
        ns["OnEndIteration"] = OnEndIteration
    if mask & 4:
        def OnMethodStop(self, searchData, solution, status):
            events.append({"cb": "stop", "sol": record.snap_solution(solution), "sol_obj": solution, "status": status})
        ns["OnMethodStop"] = OnMethodStop
    if mask & 8:
        def OnRefrash(self, searchData):
            events.append({"cb": "refresh"})
        ns["OnRefrash"] = OnRefrash
    if shape == 1:
        names = sorted(ns)
        mid = type("Mid%d" % mask, (Listener,), {k: ns[k] for k in names[::2]})
        return type("Leaf%d" % mask, (mid,), {k: ns[k] for k in names[1::2]})()
    if shape == 2:
        mixin = type("Mixin%d" % mask, (object,), ns)
        return type("Mixed%d" % mask, (mixin, Listener), {})()
    if shape == 3:
        mid = type("Base%d" % mask, (Listener,), ns)
        return type("Bare%d" % mask, (mid,), {})()
    return type("Partial%d" % mask, (Listener,), ns)()


def make_painter(pk, kw, outdir, tag):
    from iOpt.method.listener import StaticPaintListener, StaticNDPaintListener, AnimationPaintListener, AnimationNDPaintListener
    fn = "fig_%s.png" % tag
    if pk == "static":
        return StaticPaintListener(fn, outdir, **kw)
    if pk == "staticnd":
        return StaticNDPaintListener(fn, outdir, varsIndxs=[0, 1], **kw)
    if pk == "anim":
        return AnimationPaintListener(fn, outdir, **kw)
    if pk == "animnd":
        return AnimationNDPaintListener(fn, outdir, varsIndxs=[0, 1], **kw)
    raise ValueError(pk)


def solsnap_eq(a, b):
    if (a["y"] is None) != (b["y"] is None):
        return False
    if a["y"] is not None and not np.array_equal(a["y"], b["y"]):
        return False
    return record.same_value(a["v"], b["v"]) and a["nG"] == b["nG"] and a["nL"] == b["nL"] and record.same_value(a["acc"], b["acc"])


def trial_log(t):
    return [e for e in t.log if e["ph"] in ("g", "l")]


def compare_with_baseline(t, base, viol, what):
    a, b = trial_log(t), trial_log(base)
    if len(a) != len(b) or any(not np.array_equal(x["y"], y["y"]) or not record.same_value(x["v"], y["v"]) or x["ph"] != y["ph"] for x, y in zip(a, b)):
        k = next((i for i, (x, y) in enumerate(zip(a, b)) if not np.array_equal(x["y"], y["y"]) or x["ph"] != y["ph"]), min(len(a), len(b)))
        viol.append({"mech": "listener-changes-trial-sequence", "what": what, "with": len(a), "without": len(b), "first_diff": k})
    if not solsnap_eq(t.final, base.final):
        viol.append({"mech": "listener-changes-result", "what": what,
                     "with": [None if t.final["y"] is None else t.final["y"].tolist(), t.final["v"], t.final["nG"], t.final["nL"]],
                     "without": [None if base.final["y"] is None else base.final["y"].tolist(), base.final["v"], base.final["nG"], base.final["nL"]]})
    for s1, s2 in zip(t.solutions, base.solutions):
        if not solsnap_eq(record.snap_solution(s1), record.snap_solution(s2)):
            viol.append({"mech": "listener-changes-result", "what": what + " (returned Solution)"})
            break


def parse_console_final(stdout):
    """last 'Result' block of the console listener"""
    i = stdout.rfind("Result")
    if i < 0:
        return None
    blk = stdout[i:]
    d = {}
    for key, name in (("global iteration count:", "nG"), ("local iteration count:", "nL"), ("solution point:", "point"),
                      ("solution value:", "value"), ("accuracy:", "acc")):
        m = re.search(re.escape(key) + r"\s*(.*?)\s*\|\s*$", blk, re.M)
        if m:
            d[name] = m.group(1).strip()
    return d


def console_fields_missing(t, sol):
    """Which of the solution's fields do NOT appear, as numbers, in the final part of what the console listener printed?"""
    text = t.stdout
    i = text.lower().rfind("result")
    blk = text[i:] if i >= 0 else "\n".join(text.splitlines()[-15:])
    if len(blk.splitlines()) < 4:
        blk = "\n".join(text.splitlines()[-15:])
    toks = []
    for m in re.finditer(r"[-+]?(?:\d+\.\d*|\.\d+|\d+)(?:[eE][-+]?\d+)?|[-+]?inf|nan", blk):
        try:
            toks.append((m.group(0), float(m.group(0))))
        except ValueError:
            pass
    ints = {s_ for s_, v in toks if re.fullmatch(r"[-+]?\d+", s_)}
    vals = [v for s_, v in toks]

    def shown(x):
        x = float(x)
        if x != x or x in (float("inf"), float("-inf")):
            return any(v != v or v == x for v in vals)
        return any(abs(v - x) <= max(1e-8, 1e-7 * abs(x)) for v in vals)
    sn = record.snap_solution(sol)
    missing = []
    nG = len([e for e in t.log if e["ph"] == "g"])
    if str(nG) not in ints:
        missing.append("global trial count %d" % nG)
    if str(sol.numberOfLocalTrials) not in ints:
        missing.append("local trial count %d" % sol.numberOfLocalTrials)
    if sn["v"] is None or not shown(sn["v"]):
        missing.append("value %r" % (sn["v"],))
    if not shown(sol.solutionAccuracy):
        missing.append("accuracy %r" % (sol.solutionAccuracy,))
    if sn["y"] is not None:
        for k, yk in enumerate(sn["y"]):
            if not shown(yk):
                missing.append("coordinate %d of the point (%r)" % (k, float(yk)))
    return missing


def check_console(t, viol, obs):
    d = parse_console_final(t.stdout)
    if not t.solutions:
        return
    sol = t.solutions[-1]
    if d is None or len(d) < 5:
        # the report is laid out differently from the shipped one: read it format-agnostically - the statement only says that it SHOWS the
        # solution's actual trial counts, point, value and accuracy
        missing = console_fields_missing(t, sol)
        lc_ = [n for n in getattr(t, "local_calls", []) if n > 0]
        if lc_ and not missing:
            obs["console_local_counts_checked"] = obs.get("console_local_counts_checked", 0) + 1
            if sol.numberOfLocalTrials not in (lc_[-1], lc_[-1] - 1):
                missing = ["local trial count: the report shows %d, the latest refinement made %d evaluations" % (sol.numberOfLocalTrials, lc_[-1])]
        if missing:
            viol.append({"mech": "console-final-report-missing", "parsed": d, "fields_not_shown": missing, "tail": t.stdout[-400:]})
        else:
            obs["console_reports_checked"] = obs.get("console_reports_checked", 0) + 1
            obs["console_reports_read_format_agnostically"] = obs.get("console_reports_read_format_agnostically", 0) + 1
        return
    obs["console_reports_checked"] = obs.get("console_reports_checked", 0) + 1
    sn = record.snap_solution(sol)
    exp = {"nG": str(sol.numberOfGlobalTrials), "nL": str(sol.numberOfLocalTrials), "point": str(sol.bestTrials[0].point.floatVariables),
           "value": "{:.8f}".format(float(sn["v"])), "acc": "{:.8f}".format(float(sol.solutionAccuracy))}
    # independent expectations from the call log (trial counts)
    nG = len([e for e in t.log if e["ph"] == "g"])
    if str(nG) != d["nG"]:
        viol.append({"mech": "console-report-wrong", "field": "global trial count", "printed": d["nG"], "actual_evaluations": nG})
    # "actual trial counts": the local count is the number of evaluations of the latest refinement (scipy's nfev; the final
    # re-evaluation of the returned point may or may not be counted)
    lc = [n for n in getattr(t, "local_calls", []) if n > 0]
    if lc:
        obs["console_local_counts_checked"] = obs.get("console_local_counts_checked", 0) + 1
        if d["nL"] not in (str(lc[-1]), str(lc[-1] - 1)):
            viol.append({"mech": "console-report-wrong", "field": "local trial count", "printed": d["nL"], "evaluations_of_the_latest_refinement": lc[-1]})
    for k in exp:
        pr = " ".join(d[k].split())
        ex = " ".join(exp[k].split())
        if k == "point":
            # the point is compared as numbers (8 significant digits are what the shipped report prints), not as a string
            nums = []
            for tok in re.findall(r"[-+]?(?:\d+\.\d*|\.\d+|\d+)(?:[eE][-+]?\d+)?|[-+]?inf|nan", d[k]):
                try:
                    nums.append(float(tok))
                except ValueError:
                    pass
            act = [float(v) for v in sn["y"]] if sn["y"] is not None else []
            # a printed coordinate is right when it is the actual one to 1e-7 relative OR the number the shipped rendering (numpy's
            # str of the array: 8 decimals in fixed notation, 8 significant digits in scientific notation) shows for it
            shipped = []
            for tok in re.findall(r"[-+]?(?:\d+\.\d*|\.\d+|\d+)(?:[eE][-+]?\d+)?|[-+]?inf|nan", exp[k]):
                try:
                    shipped.append(float(tok))
                except ValueError:
                    pass
            if len(shipped) != len(act):
                shipped = act
            ok = len(nums) == len(act) and all(abs(a - b) <= 1e-7 * abs(b) or abs(a - c_) <= 1e-12 * abs(c_) or (a != a and b != b)
                                               for a, b, c_ in zip(nums, act, shipped))
            obs["console_points_compared_numerically"] = obs.get("console_points_compared_numerically", 0) + 1
            if not ok:
                viol.append({"mech": "console-report-wrong", "field": k, "printed": d[k], "solution": exp[k]})
            continue
        if pr != ex:
            viol.append({"mech": "console-report-wrong", "field": k, "printed": d[k], "solution": exp[k]})


def run_case(c):
    if "ambient" in c:
        return ambient.compare_with_and_without_listeners(c)
    rng = scenario.rng_for(c["seed"], "C13", c["idx"])
    N = c["N"]
    iters = int(rng.integers(12, 30)) if c["kind"] != "painter" else int(rng.integers(10, 22))
    scaled = None
    if c["kind"] in ("console", "reuse") and c["idx"] % 3 == 0:
        scaled = ["big", "small", "offset", "int", "big"][(c["idx"] // 3) % 5]
    scn = base_scn(rng, N, iters, refine=c["refine"], hostile=bool(c.get("hostile")), scaled=scaled)
    tinybox = False
    if c["kind"] in ("console", "reuse") and c["idx"] % 4 == 1:
        # a box of tiny coordinates (nanometres written in metres), sometimes with one ordinary side: what the console listener has to print
        lo_t = rng.uniform(0.0, 5e-9, N) * rng.choice([1.0, -1.0], N)
        side_t = 10 ** rng.uniform(-9.5, -8, N)
        if N > 1 and rng.random() < 0.5:
            k_ = int(rng.integers(N))
            lo_t[k_], side_t[k_] = 0.0, 1.0
        scn["lower"], scn["upper"], scn["box"] = [float(v) for v in lo_t], [float(a + b) for a, b in zip(lo_t, side_t)], "tiny-coordinates"
        scn.pop("start_point", None)
        tinybox = True
    if c.get("kw", {}).get("mode") == "interpolation" and N > 1:
        # a cubic interpolant needs at least 4 distinct abscissae: keep the section grid fine enough
        scn["m"] = max(scn["m"], 7)
        scn["eps"] = max(2.0 ** -scn["m"], 0.01)
        scn["iters"] = max(scn["iters"], 18)
    if c.get("coincident"):
        scn["m"] = 4
        scn["eps"] = 2.0 ** -4
        scn["iters"] = 150
        scn["r"] = 2.5
    scn["pattern"] = BATCHINGS[c["b"]]
    if c["kind"] in ("subset", "multi") and (c["idx"] % 5 == 2):
        scn["pattern"] = ZERO_BATCHING
        zero_batches = True
    else:
        zero_batches = False
    viol = []
    obs = {"runs": 1}
    if zero_batches:
        obs["runs_with_empty_batches"] = 1
    if tinybox:
        obs["console_runs_on_boxes_of_tiny_coordinates"] = 1
    if scn.get("start_point"):
        obs["runs_with_a_start_point"] = 1
    if scaled:
        obs["console_runs_with_extreme_values_" + scaled] = 1
    base = record.run_solver(scn, listener=False)
    if base.fp_exhausted:
        return {"violations": [], "obs": {"fp_domain_exhausted": 1}, "skip": "fp-domain-exhausted"}
    marks = []

    def after_step(n, step):
        marks.append(len([e for e in prob.log if e["ph"] == "g"]))

    prob, _ = record.make_problem(scn, cap=scn["iters"] + 30)
    if c["kind"] == "subset":
        events = []
        shape = (c["mask"] + c["b"] + c["idx"] // 192) % 4
        obs["listener_class_shape_%d" % shape] = 1
        L = make_subset_listener(c["mask"], events, prob, shape)
        try:
            t = record.run_solver(scn, listener=False, problem=prob, extra_listeners=[L], after_step=after_step)
        except Exception as e:
            import traceback
            viol.append({"mech": "listener-makes-api-raise", "mask": c["mask"], "overrides": [CB[i] for i in range(4) if c["mask"] >> i & 1], "class_shape": shape,
                         "exc": repr(e), "traceback": traceback.format_exc()[-1500:]})
            return {"violations": viol, "obs": obs, "nontrivial": True, "key": "subset|%d|%d|%d|%d" % (N, c["mask"], c["b"], c["idx"])}
        compare_with_baseline(t, base, viol, "partial listener mask=%d" % c["mask"])
        # a listener belongs to the solver it was added to: another solver running afterwards must not notify it
        n_ev = len(events)
        other = record.run_solver(scn, listener=False)
        obs["foreign_solver_runs_after_attach"] = 1
        if len(events) != n_ev:
            viol.append({"mech": "listener-notified-by-another-solver", "extra_events": [e["cb"] for e in events[n_ev:]][:10], "mask": c["mask"]})
            del events[n_ev:]
        glog = [e for e in t.log if e["ph"] == "g"]
        # expected callback sequence
        exp = []
        pos = 0
        sidx = 0
        for n, step in enumerate(scn["pattern"]):
            end = marks[n] if n < len(marks) else len(glog)
            if step[0] == "iter":
                exp.append(("iter", pos, end))
            else:
                for k in range(pos, end):
                    exp.append(("iter", k, k + 1))
                exp.append(("stop", sidx, None))
                sidx += 1
            pos = end
        got_b = [e for e in events if e["cb"] == "before"]
        got_i = [e for e in events if e["cb"] == "iter"]
        got_s = [e for e in events if e["cb"] == "stop"]
        if c["mask"] & 1:
            obs["before_checked"] = 1
            if len(got_b) != 1 or got_b[0]["logged"] != 0 or events[0]["cb"] != "before":
                viol.append({"mech": "callback-before-first-trial", "count": len(got_b), "evaluations_logged_then": [e["logged"] for e in got_b]})
        if c["mask"] & 2:
            ei = [e for e in exp if e[0] == "iter"]
            obs["iter_callbacks_checked"] = len(got_i)
            if len(got_i) != len(ei):
                viol.append({"mech": "callback-per-iteration-call-count", "delivered": len(got_i), "expected": len(ei), "pattern": scn["pattern"]})
            else:
                for e, (_, a, b) in zip(got_i, ei):
                    want = [g["y"] for g in glog[a:b]]
                    if len(e["items"]) != len(want) or any(not np.array_equal(x, y) for x, y in zip(e["items"], want)):
                        viol.append({"mech": "callback-new-trials-wrong", "delivered": [x.tolist() for x in e["items"]][:4],
                                     "expected": [x.tolist() for x in want][:4], "range": [a, b]})
                        break
                    if any(not record.same_value(z, g["v"]) for z, g in zip(e["zs"], glog[a:b])):
                        viol.append({"mech": "callback-new-trials-wrong", "what": "values", "range": [a, b]})
                        break
        if c["mask"] & 4:
            obs["stop_callbacks_checked"] = len(got_s)
            ns = len([s for s in scn["pattern"] if s[0] == "solve"])
            if len(got_s) != ns:
                viol.append({"mech": "callback-on-stop-count", "delivered": len(got_s), "expected": ns})
            else:
                for e, sol in zip(got_s, t.solutions):
                    if not solsnap_eq(record.snap_solution(e["sol_obj"]), record.snap_solution(sol)):
                        viol.append({"mech": "callback-on-stop-solution-differs"})
                        break
            # ordering: a stop event comes after all iter events of its Solve
        if c["mask"] & 6 == 6:
            seq = [e["cb"] for e in events if e["cb"] in ("iter", "stop")]
            want = [e[0] for e in exp]
            if seq != want:
                viol.append({"mech": "callback-order", "delivered": seq[:40], "expected": want[:40]})
        return {"violations": viol, "obs": obs, "nontrivial": True, "key": "subset|%d|%d|%d|%d" % (N, c["mask"], c["b"], c["idx"]),
                "sample": {"kind": "subset", "N": N, "overrides": [CB[i] for i in range(4) if c["mask"] >> i & 1], "pattern": scn["pattern"],
                           "events": [e["cb"] for e in events][:12]} if c["mask"] in (5, 15) and c["b"] == 3 else None}
    if c["kind"] == "multi":
        # several partial listeners at once: every one of them must receive its own complete callback sequence
        k = int(rng.integers(2, 5))
        masks = [int(rng.integers(1, 16)) for _ in range(k)]
        evs = [[] for _ in range(k)]
        Ls = [make_subset_listener(mk, ev, prob, int(rng.integers(4))) for mk, ev in zip(masks, evs)]
        t = record.run_solver(scn, listener=False, problem=prob, extra_listeners=Ls, after_step=after_step)
        compare_with_baseline(t, base, viol, "several partial listeners %s" % masks)
        nsolve = len([s_ for s_ in scn["pattern"] if s_[0] == "solve"])
        glog = [e for e in t.log if e["ph"] == "g"]
        ncalls = 0
        pos = 0
        for n, step in enumerate(scn["pattern"]):
            end = marks[n] if n < len(marks) else len(glog)
            ncalls += 1 if step[0] == "iter" else (end - pos)
            pos = end
        for mk, ev in zip(masks, evs):
            want = {"before": 1 if mk & 1 else 0, "iter": ncalls if mk & 2 else 0, "stop": nsolve if mk & 4 else 0}
            got = {kk: len([e for e in ev if e["cb"] == kk]) for kk in want}
            if got != want:
                viol.append({"mech": "callback-not-delivered-to-every-listener", "masks": masks, "mask": mk, "delivered": got, "expected": want})
            if mk & 2:
                delivered = [y for e in ev if e["cb"] == "iter" for y in e["items"]]
                if len(delivered) != len(glog) or any(not np.array_equal(a, g["y"]) for a, g in zip(delivered, glog)):
                    viol.append({"mech": "callback-new-trials-wrong", "masks": masks, "mask": mk})
        obs["multi_listener_runs"] = 1
        return {"violations": viol, "obs": obs, "nontrivial": True, "key": "multi|%d|%d|%d" % (N, c["b"], c["idx"]),
                "sample": {"kind": "multi", "N": N, "masks": masks, "pattern": scn["pattern"]} if c["idx"] % 5 == 0 else None}
    from iOpt.method.listener import ConsoleFullOutputListener
    if c["kind"] == "reuse":
        # first life of the two listener objects: another solver on another scenario
        events = []
        first_scn = base_scn(rng, int(rng.integers(1, 4)), int(rng.integers(8, 20)), refine=False)
        first_scn["pattern"] = [["iter", 2], ["solve"]]
        p1, _ = record.make_problem(first_scn, cap=first_scn["iters"] + 30)
        console = ConsoleFullOutputListener(mode=c["mode"], iters=int(rng.integers(1, 4)))
        partial = make_subset_listener(7, events, p1, int(rng.integers(4)))
        record.run_solver(first_scn, listener=False, problem=p1, extra_listeners=[console, partial])
        del events[:]
        # second life: the case's own solver
        partial2 = make_subset_listener(7, events, prob, 0)
        partial.__class__ = partial2.__class__          # same object, callbacks now log against the second problem
        try:
            t = record.run_solver(scn, listener=False, problem=prob, extra_listeners=[console, partial], after_step=after_step)
        except Exception as e:
            import traceback
            viol.append({"mech": "listener-makes-api-raise", "what": "listener objects reused for a second solver", "exc": repr(e),
                         "traceback": traceback.format_exc()[-1500:]})
            return {"violations": viol, "obs": obs, "nontrivial": True, "key": "reuse|%d|%d" % (N, c["idx"])}
        compare_with_baseline(t, base, viol, "listener objects reused for a second solver")
        check_console(t, viol, obs)
        nsolve = len([s_ for s_ in scn["pattern"] if s_[0] == "solve"])
        glog = [e for e in t.log if e["ph"] == "g"]
        got = {kk: len([e for e in events if e["cb"] == kk]) for kk in ("before", "stop")}
        if got != {"before": 1, "stop": nsolve}:
            viol.append({"mech": "callback-not-delivered-to-reused-listener", "delivered": got, "expected": {"before": 1, "stop": nsolve}})
        delivered = [y for e in events if e["cb"] == "iter" for y in e["items"]]
        if len(delivered) != len(glog) or any(not np.array_equal(a, g["y"]) for a, g in zip(delivered, glog)):
            viol.append({"mech": "callback-new-trials-wrong", "what": "reused listener object"})
        obs["reused_listener_runs"] = 1
        obs["console_runs"] = 1
        return {"violations": viol, "obs": obs, "nontrivial": True, "key": "reuse|%d|%s|%d" % (N, c["mode"], c["idx"]),
                "sample": {"kind": "listener objects reused", "N": N, "mode": c["mode"], "pattern": scn["pattern"]} if N == 1 else None}
    outdir = tempfile.mkdtemp(prefix="c13fig_")
    try:
        import matplotlib
        import matplotlib.pyplot as plt
        ls = []
        what = c["kind"]
        # half of the runs attach the shipped listeners directly (probe calls are recognised from the call stack), the other
        # half through the forwarding proxy (probe calls are recognised from the phase marker)
        direct = c["idx"] % 2 == 0
        wrap = (lambda l: l) if direct else record.ForwardingProxy
        obs["attached_directly" if direct else "attached_through_proxy"] = 1
        if c["kind"] == "console":
            it_ = int(rng.integers(1, 6))
            if c["b"] % 2 == 1:
                # a user class refining the shipped console listener: one callback extended, the others inherited
                stops = []

                class RefinedConsole(ConsoleFullOutputListener):
                    def OnMethodStop(self, searchData, solution, status):
                        stops.append(record.snap_solution(solution))
                        return super().OnMethodStop(searchData, solution, status)
                ls.append(wrap(RefinedConsole(mode=c["mode"], iters=it_)))
                obs["console_subclass_runs"] = 1
            else:
                ls.append(wrap(ConsoleFullOutputListener(mode=c["mode"], iters=it_)))
            what = "console:" + c["mode"]
        else:
            ls.append(wrap(make_painter(c["painter"], c["kw"], outdir, str(c["idx"]))))
            what = "%s%s" % (c["painter"], c["kw"])
            if c["console"]:
                ls.append(wrap(ConsoleFullOutputListener(mode="result")))
                what += "+console"
        with warnings.catch_warnings():
            warnings.simplefilter("ignore")
            try:
                t = record.run_solver(scn, listener=False, problem=prob, extra_listeners=ls, after_step=after_step)
            except Exception as e:
                import traceback
                viol.append({"mech": "listener-makes-api-raise", "what": what, "exc": repr(e), "traceback": traceback.format_exc()[-1800:]})
                return {"violations": viol, "obs": obs, "nontrivial": True, "key": "%s|%d|%d" % (what, N, c["idx"])}
        plt.close("all")
        compare_with_baseline(t, base, viol, what)
        probes = len([e for e in t.log if e["ph"] == "p"])
        obs["painter_probe_calls"] = probes
        if c["kind"] == "console" or c.get("console"):
            check_console(t, viol, obs)
            obs["console_runs"] = 1
        if c.get("hostile"):
            obs["hostile_grid_boxes"] = 1
        if c.get("coincident"):
            pts = [tuple(e["y"][:2]) for e in t.log if e["ph"] == "g"]
            obs["runs_with_coincident_projected_trials"] = int(len(set(pts)) < len(pts))
        if c["kind"] == "painter":
            obs["painter_runs"] = 1
            files = os.listdir(outdir)
            obs["figures_written"] = len(files)
            obs["painter_kinds"] = ["%s|%s" % (c["painter"], sorted(c["kw"].items()))]
        if c["refine"]:
            obs["refine_runs"] = 1
        return {"violations": viol, "obs": obs, "nontrivial": True, "key": "%s|%d|%d|%d" % (what, N, c["b"], c["idx"]),
                "sample": {"kind": what, "N": N, "pattern": scn["pattern"], "refine": c["refine"], "probe_calls": probes,
                           "trials": len([e for e in t.log if e["ph"] == "g"])} if c["idx"] % 7 == 0 else None}
    finally:
        shutil.rmtree(outdir, ignore_errors=True)


def finalize(obs, tier, stats):
    for k in ("before_checked", "iter_callbacks_checked", "stop_callbacks_checked", "console_reports_checked", "painter_runs", "painter_probe_calls",
              "figures_written", "refine_runs", "multi_listener_runs", "hostile_grid_boxes", "runs_with_coincident_projected_trials",
              "listener_class_shape_0", "listener_class_shape_1", "listener_class_shape_2", "listener_class_shape_3", "console_subclass_runs", "attached_directly", "attached_through_proxy", "ambient_solvers_compared", "ambient_with_user_listeners", "console_local_counts_checked", "reused_listener_runs", "console_runs_with_extreme_values_big", "console_runs_with_extreme_values_small", "runs_with_empty_batches"):
        if not obs.get(k):
            return "%s never observed" % k, {}
    if len(obs.get("painter_kinds", [])) < 19:
        return "painter matrix incomplete: %d kinds" % len(obs.get("painter_kinds", [])), {}
    return None, {}
