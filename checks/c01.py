"""C01 - certified eps-optimality of the result under the Lipschitz reliability condition."""
import math

import numpy as np

from vlib import scenario, record, agp_model, evolvent_model as em

LEVEL = "exploration"
RULE = ("seeded runs on objectives with exactly known Lipschitz constant L on the unit cube and exactly known (cones, quadratic wells, linear, off-box quadratics, constants) or "
        "upper-estimated (sums of sines) global minimum, N=1..3 (quick) / 1..5 (thorough), r in (1,60], eps inside the floating-point domain, densities 2..12, two classes: "
        "'flat' (K_N*L <= r, bound unconditional) and 'near-threshold' (r*M around K_N*L, minima placed at images of dyadic curve points midway between early trials), plus 'hidden basin' flat objectives: a background of slope far below the floor 1 of M with one narrow cone of slope L ~ r/K_N holding the global minimum, and 'multiscale' objectives (eps far below 2^-m, a narrow steep notch at a dyadic point plus a slightly deeper, gentler basin elsewhere) and 'zigzag' objectives (crowded steep teeth, a ramp, a deeper tooth far away; first iterations in one long DoGlobalIteration batch). A run "
        "QUALIFIES when it stopped by accuracy and r*M >= K_N*L held with the M in force when the last interval was selected (reconstructed by the reference model from the "
        "authenticated trial log); for qualifying runs best - f* must be below (r*M_final/2)*eps + L*2^-m*(sqrt(N+3)+sqrt(N)/2) (grid term 0 for N=1). "
        "Non-trivial: qualifying runs; distinct = (family, N, r, eps, m, trial count).")
ASSUMPTIONS = ["the reliability condition is evaluated with M at selection time (the theorem needs the characteristics at selection to be valid bounds); the bound uses the final M as stated",
               "f* is exact or an upper estimate, L exact or an upper bound: both only weaken the check",
               "the bound is conservative (largest observed gap/bound is reported), so this monitor is sound but of modest power; C02/C03 carry the sharp detection"]
SIZES = {"quick": 700, "thorough": 12000}


def KN(N):
    return 2.0 if N == 1 else 2.0 ** (3.0 - 1.0 / N) * math.sqrt(N + 3.0)


def cases(tier, seed):
    out = []
    for i in range(SIZES[tier]):
        rng = scenario.rng_for(seed, "C01", i)
        dims = (1, 1, 2, 2, 3) if tier == "quick" else (1, 2, 2, 3, 3, 4, 5)
        N = int(dims[int(rng.integers(len(dims)))])
        m = 10 if N == 1 else int(rng.integers(2, min(12, 50 // N) + 1))
        lo, hi, kind = scenario.gen_box(rng, N)
        r = float(rng.choice([1.5, 2.0, 3.0, 4.0, 6.0, 10.0, 20.0, 40.0, 60.0])) if rng.random() < 0.6 else float(1.0 + 10 ** rng.uniform(-0.5, 1.77))
        cls = "flat" if rng.random() < 0.45 else "threshold"
        fam = str(rng.choice(["cones", "cones", "wells", "linear", "outside", "sines", "const"]))
        obj = scenario.gen_objective(rng, N, [fam])
        G, info = scenario.build_objective(obj, N)
        # rescale the objective so that L has the wanted relation to r
        L0 = info.get("L", 0.0)
        if cls == "flat":
            target = r / KN(N) * float(rng.uniform(0.3, 1.0))
        else:
            # M is at most 2*sqrt(N+3)*L (1*L for N=1); put r*M around K_N*L
            target = float(10 ** rng.uniform(-0.3, 1.5))
        scale = target / L0 if L0 > 0 else 1.0
        if fam == "cones" and rng.random() < 0.5 and N > 1:
            # a minimum midway between early trial points: image of a dyadic curve point
            un = em.unit_evolvent(N, m)
            x = float(rng.choice([0.25, 0.75, 0.375, 0.625, 0.125, 0.875, 0.3125]))
            obj["a"][0] = [float(v) for v in un.GetImage(x)]
        eps_lo = scenario.eps_floor(N, m)
        eps = float(10 ** rng.uniform(math.log10(max(eps_lo * 1.01, 1e-6 if N == 1 else eps_lo * 1.01)), math.log10(0.3)))
        out.append({"N": N, "lower": lo, "upper": hi, "box": kind, "obj": {"fam": "scaledby", "base": obj, "scale": scale}, "r": r, "eps": eps,
                    "iters": 2000 if tier == "quick" else 3000, "m": m, "refine": False, "cls": cls})
        if i % 4 == 1:
            # the first iterations are carried out through DoGlobalIteration batches, Solve takes over (C11 says this is the same search)
            out[-1]["pattern"] = [["iter", int(v)] for v in rng.integers(3, 40, int(rng.integers(1, 4)))] + [["solve"]]
            out[-1]["batched"] = True
    # 'hidden basin': a flat objective (K_N*L <= r, bound unconditional) whose gentle slopes stay far below the floor 1 of the
    # estimate M, with a narrow basin of slope L that contains none of the early (dyadic) trial points and holds the global minimum
    nh = 160 if tier == "quick" else 2000
    for i in range(nh):
        rng = scenario.rng_for(seed, "C01H", i)
        N = int(rng.choice([1, 1, 1, 2, 2, 3] if tier == "quick" else [1, 1, 2, 2, 3, 4]))
        m = 10 if N == 1 else min(12, 50 // N)
        lo, hi, kind = scenario.gen_box(rng, N)
        r = float(rng.choice([2.0, 2.5, 3.0, 4.0, 6.0, 10.0, 20.0]))
        L = r / KN(N) * float(rng.uniform(0.6, 1.0))
        eps_lo = scenario.eps_floor(N, m)
        eps_hi = min(0.02, 0.15 / (1.5 * KN(N)))
        eps = float(10 ** rng.uniform(math.log10(max(eps_lo * 1.01, 1e-4)), math.log10(max(eps_hi, eps_lo * 1.02))))
        w = float(rng.uniform(max(0.02, 1.5 * KN(N) * eps), 0.2))                   # half-width of the basin in cube units
        k1 = L * float(10 ** rng.uniform(-2.5, -0.7))                               # gentle background slope
        a1 = [float(v) for v in rng.uniform(0.1, 0.9, N)]
        if N == 1:
            a2 = [float(rng.uniform(0.03, 0.97))]
        else:
            a2 = [float(v) for v in np.clip(em.unit_evolvent(N, m).GetImage(float(rng.random())) + rng.uniform(-0.02, 0.02, N), 0.0, 1.0)]
        d12 = math.sqrt(sum((p - q) ** 2 for p, q in zip(a1, a2)))
        c2 = k1 * d12 - (L - k1) * w                                                # the narrow cone emerges from the background at distance ~w
        obj = {"fam": "cones", "a": [a1, a2], "c": [0.0, c2], "K": [k1, L]}
        out.append({"N": N, "lower": lo, "upper": hi, "box": kind, "obj": {"fam": "scaledby", "base": obj, "scale": 1.0}, "r": r, "eps": eps,
                    "iters": 3000, "m": m, "refine": False, "cls": "hidden"})
        if i % 3 == 0:
            # the accuracy stop is reached by a RESUMED search: Solve under a small limit, the user raises itersLimit (or steps on with
            # DoGlobalIteration), Solve again.  "every iteration limit large enough that the accuracy stop is reached" - however it is reached
            k1 = int(rng.integers(8, 40))
            out[-1]["iters"] = k1
            out[-1]["final_limit"] = 3000
            if i % 2 == 0:
                out[-1]["pattern"] = [["solve"], ["set", "itersLimit", 3000], ["solve"]]
            else:
                out[-1]["pattern"] = [["solve"], ["iter", int(rng.integers(5, 60))], ["set", "itersLimit", 3000], ["solve"]]
            out[-1]["resumed"] = True
        elif i % 3 == 2:
            # ... or after some iterations and a local refinement of the estimate found so far (DoLocalRefinement), then Solve
            out[-1]["pattern"] = [["iter", int(rng.integers(2, 12))], ["local", int(rng.integers(3, 30))], ["solve"]]
            out[-1]["refined_before_solve"] = True
        elif i % 3 == 1:
            # ... or after the first iterations were carried out in DoGlobalIteration batches
            out[-1]["pattern"] = [["iter", int(v)] for v in rng.integers(10, 60, int(rng.integers(1, 4)))] + [["solve"]]
            out[-1]["batched"] = True
    # 'multiscale': eps far below 2^-m; a narrow steep notch at a dyadic point is found early and refined (its slope, visible only
    # on intervals much shorter than 2^-m, drives M up), while a slightly deeper basin of smaller slope hides between coarse trials
    nm = 48 if tier == "quick" else 600
    for i in range(nm):
        rng = scenario.rng_for(seed, "C01M", i)
        N, m = 1, 10
        lo, hi, kind = scenario.gen_box(rng, N)
        r = float(rng.choice([3.0, 3.0, 3.5]))
        d1 = float(rng.uniform(0.05, 0.2))
        w1 = float(rng.uniform(0.3, 0.6)) * 2.0 ** -m          # half-width of the notch: inside one interval of length 2^-m
        s1 = d1 / w1                                           # its slope is seen only between trials closer than 2^-m
        s2 = s1 * float(rng.uniform(0.93, 1.0))
        d2 = d1 * float(rng.uniform(1.05, 1.3))
        a1 = [float(rng.choice([0.75, 0.25, 0.5, 0.625, 0.375, 0.875]))]
        a2 = [float(rng.uniform(0.05, 0.95))]
        while abs(a2[0] - a1[0]) < 0.02:
            a2 = [float(rng.uniform(0.05, 0.95))]
        eps = float(10 ** rng.uniform(-6, -5))
        obj = {"fam": "cones", "a": [[0.5] * N, a1, a2], "c": [0.0, -d1, -d2], "K": [1e-3, s1, s2]}
        out.append({"N": N, "lower": lo, "upper": hi, "box": kind, "obj": {"fam": "scaledby", "base": obj, "scale": 1.0}, "r": r, "eps": eps,
                    "iters": 20000, "m": m, "refine": False, "cls": "multiscale"})
    # 'zigzag': several steep narrow teeth crowded on one side (M keeps growing while they are refined), a gentle ramp, and one deeper
    # tooth on the other side; the first iterations come in one DoGlobalIteration batch long enough to reach eps inside the crowd
    nz = 64 if tier == "quick" else 800
    for i in range(nz):
        rng = scenario.rng_for(seed, "C01Z", i)
        N, m = 1, 10
        lo, hi, kind = scenario.gen_box(rng, N)
        Ls = float(rng.uniform(15, 40))
        side_l = bool(rng.random() < 0.5)
        base = 0.02 if side_l else 0.75
        teeth = [base + 0.05 * j + float(rng.uniform(-0.008, 0.008)) for j in range(int(rng.integers(3, 6)))]
        deep = float(rng.uniform(0.82, 0.95)) if side_l else float(rng.uniform(0.05, 0.18))
        a = [[0.5]] + [[t] for t in teeth] + [[deep]]
        c = [0.6] + [float(rng.uniform(-0.5, 0.2)) for _ in teeth] + [float(rng.uniform(-3.0, -1.5))]
        K = [1.0] + [Ls] * len(teeth) + [Ls]
        obj = {"fam": "cones", "a": a, "c": c, "K": K}
        r = float(rng.uniform(2.05, 2.6))
        eps = float(10 ** rng.uniform(-2.3, -1.5))
        pat = [["iter", int(rng.integers(15, 70))], ["solve"]] if i % 4 else [["solve"]]
        out.append({"N": N, "lower": lo, "upper": hi, "box": kind, "obj": {"fam": "scaledby", "base": obj, "scale": 1.0}, "r": r, "eps": eps,
                    "iters": 5000, "m": m, "refine": False, "cls": "zigzag", "pattern": pat, "batched": bool(i % 4)})
    return out


def build(scn):
    """objective scaled by a constant (keeps exact L and fmin)"""
    base = scn["obj"]["base"]
    sc = scn["obj"]["scale"]
    G0, info0 = scenario.build_objective(base, scn["N"])
    info = {}
    if "L" in info0:
        info["L"] = info0["L"] * abs(sc)
    if "fmin" in info0 and sc > 0:
        info["fmin"] = info0["fmin"] * sc
    return (lambda u: G0(u) * sc), info


def upper_estimate_min(G, N, rng):
    """an UPPER estimate of the global minimum over the cube (sampling + bounded polish)"""
    from scipy.optimize import minimize
    pts = rng.random((4000 if N <= 2 else 12000, N))
    vals = np.array([G(p) for p in pts])
    best = float(vals.min())
    for i in np.argsort(vals)[:6]:
        r = minimize(lambda u: G(np.clip(u, 0, 1)), pts[i], method="Nelder-Mead", bounds=[(0, 1)] * N, options={"xatol": 1e-9, "fatol": 1e-13, "maxfev": 600 * N})
        best = min(best, float(G(np.clip(r.x, 0, 1))))
    return best


def run_case(scn):
    N, r, eps, m = scn["N"], scn["r"], scn["eps"], scn["m"]
    G, info = build(scn)
    limit = scn.get("final_limit", scn["iters"])
    prob = record.RecordingProblem(N, scn["lower"], scn["upper"], G, cap=limit + 70)
    t = record.run_solver(scn, listener=True, problem=prob)
    if t.fp_exhausted:
        return {"violations": [], "obs": {"fp_domain_exhausted": 1}, "skip": "fp-domain-exhausted"}
    viol = []
    obs = {"runs": 1}
    if t.swallowed or t.aborted:
        viol.append({"mech": "solve-internal-exception", "stdout": t.stdout[-300:]})
        return {"violations": viol, "obs": obs}
    xs, zs, problems = record.trial_sequence(t)
    for p in problems[:2]:
        viol.append({"mech": "trial-authentication", "msg": p})
    a = agp_model.audit(xs, zs, N, r)
    T = len(xs)
    lens = [L for L in a["lengths"][1:] if L is not None]
    # "Solve stops because the requested accuracy was reached": it returned before the budget was exhausted
    # (or exactly at the budget with an interval shorter than eps subdivided)
    stopped_by_accuracy = T >= 2 and (T < limit or (bool(lens) and min(lens) < eps))
    if not stopped_by_accuracy:
        obs["not_accuracy_stop"] = 1
        return {"violations": viol, "obs": obs, "skip": "budget-or-other-stop"}
    L = info["L"]
    M_sel = a["M_sel"][-1]
    M_fin = a["M_final"]
    try:
        Mreal = float(t.solver.method.M[0])
        if abs(Mreal - M_fin) <= 1e-9 * max(1.0, M_fin):
            obs["M_agrees_with_solver"] = 1
    except Exception:
        pass
    if r * M_sel < KN(N) * L:
        obs["unreliable"] = 1
        return {"violations": viol, "obs": obs, "skip": "reliability-condition-not-met"}
    if "fmin" in info:
        fstar = info["fmin"]
        obs["exact_min_runs"] = 1
    else:
        fstar = upper_estimate_min(G, N, scenario.rng_for(0, "C01min", repr(scn["obj"])[:200]))
        obs["estimated_min_runs"] = 1
    best = float(t.final["v"])
    refined = any(e["ph"] == "l" for e in t.log)
    if (best != min(zs)) if not refined else (best > min(zs)):
        viol.append({"mech": "result-not-best-trial", "reported": best, "min_trial": min(zs)})
    grid = 0.0 if N == 1 else L * 2.0 ** (-m) * (math.sqrt(N + 3.0) + math.sqrt(N) / 2.0)
    bound = (r * M_fin / 2.0) * eps + grid
    gap = best - fstar
    ratio = gap / bound if bound > 0 else (0.0 if gap <= 0 else float("inf"))
    obs["qualifying"] = 1
    obs["qualifying_" + scn["cls"]] = 1
    if scn.get("resumed"):
        obs["qualifying_resumed"] = 1
    if scn.get("batched"):
        obs["qualifying_batched"] = 1
    if scn.get("refined_before_solve"):
        obs["qualifying_refined_before_solve"] = 1
    obs["qualifying_N%d" % N] = 1
    obs["max_gap_over_bound"] = max(0.0, ratio)
    obs["trials"] = T
    if KN(N) * L <= r:
        obs["unconditional_class"] = 1
    if not (gap < bound) and not (gap <= 0):
        viol.append({"mech": "eps-optimality-bound", "best": best, "fstar": fstar, "gap": gap, "bound": bound, "r": r, "M_final": M_fin, "M_at_selection": M_sel,
                     "L": L, "K_N": KN(N), "eps": eps, "m": m, "N": N, "trials": T})
    return {"violations": viol, "obs": obs, "nontrivial": True,
            "key": "%s|%d|%r|%r|%d|%d" % (scn["obj"]["base"]["fam"], N, r, eps, m, T),
            "sample": {"fam": scn["obj"]["base"]["fam"], "N": N, "r": r, "eps": eps, "m": m, "class": scn["cls"], "trials": T, "L": L, "M_final": M_fin,
                       "gap": gap, "bound": bound}}


def finalize(obs, tier, stats):
    need = 60 if tier == "quick" else 400
    q = obs.get("qualifying", 0)
    if q < need:
        return "only %d qualifying runs (< %d); skipped: %s" % (q, need, stats.get("skipped")), {}
    dims = (1, 2, 3) if tier == "quick" else (1, 2, 3, 4, 5)
    miss = [n for n in dims if not obs.get("qualifying_N%d" % n)]
    if miss:
        return "no qualifying run in dimension(s) %s" % miss, {}
    if not obs.get("qualifying_threshold") or not obs.get("qualifying_flat") or not obs.get("qualifying_hidden") or not obs.get("qualifying_multiscale") or not obs.get("qualifying_resumed") or not obs.get("qualifying_batched") or not obs.get("qualifying_zigzag") or not obs.get("qualifying_refined_before_solve"):
        return "a scenario class never qualified", {}
    return None, {"qualifying_runs": q, "largest_gap_over_bound": obs.get("max_gap_over_bound")}
