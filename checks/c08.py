"""C08 - the evolvent is a continuous (Hoelder) space-filling curve."""
import math

import numpy as np

from vlib import scenario, evolvent_model as em
from iOpt.evolvent.evolvent import Evolvent

LEVEL = "exploration"
EXH = {"quick": 16, "thorough": 20}
WIN = {"quick": 256, "thorough": 2000}
RULE = ("(a) exhaustive: for every (N,m), N=2..5, N*m <= 16 (quick) / 20 (thorough) every pair of consecutive subintervals must map to face-adjacent cells "
        "(exact integer cell vectors on the unit box differ by 1 in exactly one coordinate), and for N*(m+1) <= the same bound every density-(m+1) cell of "
        "subinterval i*2^N+k must lie inside the density-m cell of i; (b) windows (start, end, every digit-carry position, random) for densities up to "
        "N*m = 50: adjacency inside the window and nesting against density m-1; (c) sampled pairs (log-uniform gaps, pairs straddling subinterval "
        "boundaries of every level) on unit and arbitrary boxes must satisfy the Hoelder inequality. Non-trivial: every case; distinct = (kind, N, m, range)."
       ' Adjacency and nesting are also examined on generated boxes (half of them on Solver-built evolvents).')
ASSUMPTIONS = ["cell arithmetic on the unit box is exact", "the Hoelder inequality on arbitrary boxes is tested with 8 ulp slack on the norm"]
CHUNK = 1


def cases(tier, seed):
    out = []
    for N in (2, 3, 4, 5):
        for m in range(1, 26):
            if N * m > EXH[tier]:
                break
            n = 1 << (N * m)
            step = 1 << 14
            for a in range(0, n, step):
                out.append({"kind": "adj", "N": N, "m": m, "a": a, "b": min(n, a + step), "seed": seed})
            if N * (m + 1) <= EXH[tier]:
                stepn = 1 << 12
                for a in range(0, n, stepn):
                    out.append({"kind": "nest", "N": N, "m": m, "a": a, "b": min(n, a + stepn), "seed": seed})
    k = 0
    for N in (2, 3, 4, 5):
        for m in range(2, 26):
            if N * m <= EXH[tier] or N * m > 50:
                continue
            rng = scenario.rng_for(seed, "C08w", k)
            k += 1
            starts = em.window_starts(N, m, WIN[tier], rng, extra_random=3 if tier == "quick" else 8)
            per = 6
            for c in range(0, len(starts), per):
                out.append({"kind": "win", "N": N, "m": m, "starts": starts[c:c + per], "W": WIN[tier], "seed": seed})
    npair = 40 if tier == "quick" else 1600
    for i in range(npair):
        rng = scenario.rng_for(seed, "C08h", i)
        N = int(rng.integers(2, 6))
        m = int(rng.integers(1, 50 // N + 1))
        if rng.random() < 0.5:
            m = min(m, 10)
        lo, hi, kind = scenario.gen_box(rng, N, "unit" if i % 3 == 0 else None)
        out.append({"kind": "holder", "N": N, "m": m, "lower": lo, "upper": hi, "box": kind, "i": i, "seed": seed,
                    "pairs": 500 if tier == "quick" else 1000})
    # adjacency and nesting on boxes (not only on the unit cube), half of them on the Evolvent a Solver builds for the box
    for i in range(48 if tier == "quick" else 1500):
        rng = scenario.rng_for(seed, "C08b", i)
        N = int(rng.integers(2, 6))
        m = int(rng.integers(1, min(10, 48 // N - 1) + 1))
        lo, hi, kind = scenario.gen_box(rng, N)
        out.append({"kind": "boxadj", "N": N, "m": m, "lower": lo, "upper": hi, "box": kind, "i": i, "seed": seed, "W": 300 if tier == "quick" else 1200})
    return out


def box_cells(ev, xs, lo, side, m, gtol, viol, info):
    out = []
    for x in xs:
        q = (ev.GetImage(x) - lo) / side * (2.0 ** m) - 0.5
        j = np.rint(q)
        if (np.any(np.abs(q - j) > gtol) or np.any(j < 0) or np.any(j >= 2 ** m)) and len(viol) < 4:
            viol.append(dict(info, mech="box-image-not-a-cell-centre", x=x, grid_coordinate=q.tolist(), density=m))
        out.append(j.astype(np.int64))
    return out


def cells(ev, xs, m, viol):
    out = []
    for x in xs:
        y = ev.GetImage(x)
        j, exact = em.cell_of_unit_image(y, m)
        if not exact and len(viol) < 4:
            viol.append({"mech": "image-not-a-cell-centre", "x": x, "image": y.tolist()})
        out.append(j)
    return out


def check_adjacent(ca, cb, info, viol):
    d = np.abs(ca - cb)
    if int(d.sum()) != 1:
        if len(viol) < 5:
            viol.append(dict(info, mech="consecutive-cells-not-face-adjacent", cell_a=ca.tolist(), cell_b=cb.tolist()))
        return False
    return True


def run_case(c):
    N, m, kind = c["N"], c["m"], c["kind"]
    viol = []
    obs = {}
    n = 1 << (N * m)
    # every third structural case runs on an object that lived on another box first and was moved to the unit box with SetBounds
    rb = None
    if kind in ("adj", "nest", "win") and (c.get("a", 0) // 7 + N + m + len(c.get("starts", []))) % 3 == 0:
        rb = scenario.rng_for(c.get("seed", 0), "C08rb", "%s-%d-%d-%s" % (kind, N, m, c.get("a", c.get("starts", [0])[:1])))
        obs["structural_cases_on_rebounded_objects"] = 1
    if kind == "adj":
        ev = em.unit_evolvent(N, m, rb)
        hi = min(c["b"], n - 1)
        cs = cells(ev, [i / n for i in range(c["a"], hi + 1)], m, viol)
        for k in range(len(cs) - 1):
            check_adjacent(cs[k], cs[k + 1], {"N": N, "m": m, "i": c["a"] + k}, viol)
        obs["adjacent_pairs"] = len(cs) - 1
        return {"violations": viol, "obs": obs, "nontrivial": True, "key": "adj|%d|%d|%d" % (N, m, c["a"]),
                "sample": {"kind": "adjacency sweep", "N": N, "m": m, "range": [c["a"], c["b"]]} if c["a"] == 0 and m > 2 else None}
    if kind == "nest":
        ev = em.unit_evolvent(N, m, rb)
        ev2 = em.unit_evolvent(N, m + 1, rb)
        n2 = n << N
        cnt = 0
        for i in range(c["a"], c["b"]):
            ci = cells(ev, [i / n], m, viol)[0]
            kids = cells(ev2, [(i * (1 << N) + k) / n2 for k in range(1 << N)], m + 1, viol)
            for k, cj in enumerate(kids):
                cnt += 1
                if not np.array_equal(cj >> 1, ci):
                    if len(viol) < 5:
                        viol.append({"mech": "finer-cell-not-nested", "N": N, "m": m, "i": i, "k": k, "coarse": ci.tolist(), "fine": cj.tolist()})
        obs["nested_children"] = cnt
        return {"violations": viol, "obs": obs, "nontrivial": True, "key": "nest|%d|%d|%d" % (N, m, c["a"]),
                "sample": {"kind": "nesting sweep", "N": N, "m": m, "range": [c["a"], c["b"]]} if c["a"] == 0 and m > 1 else None}
    if kind == "win":
        ev = em.unit_evolvent(N, m, rb)
        evc = em.unit_evolvent(N, m - 1, rb)
        nc = n >> N
        pairs = 0
        nested = 0
        for s in c["starts"]:
            e = min(n - 1, s + c["W"])
            cs = cells(ev, [i / n for i in range(s, e + 1)], m, viol)
            for k in range(len(cs) - 1):
                check_adjacent(cs[k], cs[k + 1], {"N": N, "m": m, "i": s + k}, viol)
                pairs += 1
            # nesting against density m-1 for the parents that the window touches
            par = sorted({i >> N for i in range(s, e + 1)})
            pc = dict(zip(par, cells(evc, [p / nc for p in par], m - 1, viol)))
            for k, i in enumerate(range(s, e + 1)):
                nested += 1
                if not np.array_equal(cs[k] >> 1, pc[i >> N]):
                    if len(viol) < 5:
                        viol.append({"mech": "finer-cell-not-nested", "N": N, "m": m - 1, "i": i >> N, "fine_subinterval": i,
                                     "coarse": pc[i >> N].tolist(), "fine": cs[k].tolist()})
        obs.update({"window_adjacent_pairs": pairs, "window_nested": nested, "windows": len(c["starts"]), "max_Nm": N * m})
        return {"violations": viol, "obs": obs, "nontrivial": True, "key": "win|%d|%d|%s" % (N, m, c["starts"][:2]),
                "sample": {"kind": "windows", "N": N, "m": m, "starts": c["starts"][:3], "W": c["W"]} if N * m >= 45 else None}
    if kind == "boxadj":
        rng = scenario.rng_for(c["seed"], "C08br", c["i"])
        lo = np.array(c["lower"], dtype=float)
        hi = np.array(c["upper"], dtype=float)
        side = hi - lo
        gtol = np.maximum(1e-6, 8.0 * np.spacing(np.maximum(np.abs(lo), np.abs(hi))) / side * (2.0 ** (m + 1)))
        if np.any(gtol > 0.1):
            return {"violations": [], "obs": {"boxadj_skipped_rounding": 1}, "nontrivial": False, "key": None}
        via = c["i"] % 2 == 1
        if via:
            ev = em.solver_evolvent(c["lower"], c["upper"], N, m, rng, obs)
            ev2 = em.solver_evolvent(c["lower"], c["upper"], N, m + 1, rng, obs)
        else:
            ev = Evolvent(c["lower"], c["upper"], N, m)
            ev2 = Evolvent(c["lower"], c["upper"], N, m + 1)
        info = {"N": N, "m": m, "lower": c["lower"], "upper": c["upper"], "built_by_a_solver": via}
        s0 = int(rng.integers(0, max(1, n - c["W"])))
        e0 = min(n - 1, s0 + c["W"])
        def inside(i):
            # a random point of subinterval i; (i + u) / n may round up into subinterval i + 1 when u is within 2^-13 of 1 at N*m = 40..50
            x = (i + float(rng.random())) / n
            return x if i / n <= x < (i + 1) / n else i / n
        cs = box_cells(ev, [inside(i) for i in range(s0, e0 + 1)], lo, side, m, gtol, viol, info)
        for k in range(len(cs) - 1):
            check_adjacent(cs[k], cs[k + 1], dict(info, i=s0 + k), viol)
        n2 = n << N
        kids_checked = 0
        for i in range(s0, min(e0 + 1, s0 + 40)):
            kids = box_cells(ev2, [(i * (1 << N) + k + 0.5) / n2 for k in range(1 << N)], lo, side, m + 1, gtol, viol, info)
            for k, cj in enumerate(kids):
                kids_checked += 1
                if not np.array_equal(cj >> 1, cs[i - s0]) and len(viol) < 5:
                    viol.append(dict(info, mech="finer-cell-not-nested", i=i, k=k, coarse=cs[i - s0].tolist(), fine=cj.tolist()))
        obs.update({"box_adjacent_pairs": len(cs) - 1, "box_nested_children": kids_checked, "box_kinds": [c["box"]]})
        return {"violations": viol, "obs": obs, "nontrivial": True, "key": "boxadj|%d|%d|%d" % (N, m, c["i"]),
                "sample": dict(info, kind="adjacency and nesting on a box", window=[s0, e0]) if c["i"] < 2 else None}
    if kind == "holder":
        rng = scenario.rng_for(c["seed"], "C08hr", c["i"])
        if c["i"] % 2:
            # the object answered queries on another box before it was given this one
            plo = rng.uniform(-50, 50, N)
            ev = Evolvent(plo, plo + 10 ** rng.uniform(-2, 2, N), N, m)
            ev.GetImage(float(rng.random()))
            ev.SetBounds(c["lower"], c["upper"])
            obs["holder_cases_on_rebounded_objects"] = 1
        else:
            ev = Evolvent(c["lower"], c["upper"], N, m)
        side = np.array(c["upper"], dtype=float) - np.array(c["lower"], dtype=float)
        smax = float(side.max())
        K = 2.0 * math.sqrt(N + 3.0)
        gmin = 2.0 ** (-N * m)
        worst = 0.0
        npairs = 0
        for p in range(c["pairs"]):
            u = rng.random()
            if u < 0.5:
                # straddle a subinterval boundary of a random level
                lev = int(rng.integers(1, m + 1))
                nb = 1 << (N * lev)
                b = int(rng.integers(1, nb)) / nb
                gap = max(gmin, 10 ** rng.uniform(math.log10(gmin), 0) * 0.5)
                x1 = max(0.0, b - gap * rng.random())
                x2 = min(1.0, x1 + gap)
            else:
                gap = 10 ** rng.uniform(math.log10(gmin), 0)
                x1 = rng.random() * (1 - gap)
                x2 = x1 + gap
            dx = abs(x2 - x1)
            if dx < gmin:
                continue
            y1, y2 = ev.GetImage(x1), ev.GetImage(x2)
            dist = float(np.sqrt(((y1 - y2) ** 2).sum()))
            bound = K * math.pow(dx, 1.0 / N) * smax
            slack = 8 * float(np.spacing(max(np.abs(np.array(c["lower"], dtype=float)).max(), np.abs(np.array(c["upper"], dtype=float)).max(), smax)))
            npairs += 1
            worst = max(worst, dist / bound if bound > 0 else 0)
            if dist > bound + slack:
                if len(viol) < 5:
                    viol.append({"mech": "hoelder-inequality", "N": N, "m": m, "x1": x1, "x2": x2, "dist": dist, "bound": bound,
                                 "lower": c["lower"], "upper": c["upper"]})
        obs.update({"holder_pairs": npairs, "max_holder_ratio": worst})
        return {"violations": viol, "obs": obs, "nontrivial": npairs > 10, "key": "holder|%d|%d|%d" % (N, m, c["i"]),
                "sample": {"kind": "hoelder pairs", "N": N, "m": m, "box": c["box"], "pairs": npairs, "worst_ratio": worst} if c["i"] < 2 else None}
    raise ValueError(kind)


def finalize(obs, tier, stats):
    if obs.get("max_Nm", 0) < 50:
        return "windows never reached N*m = 50", {}
    for k in ("adjacent_pairs", "nested_children", "window_adjacent_pairs", "window_nested", "holder_pairs", "box_adjacent_pairs", "box_nested_children", "evolvents_built_by_a_solver", "structural_cases_on_rebounded_objects",
              "holder_cases_on_rebounded_objects"):
        if not obs.get(k):
            return "monitor %s never ran" % k, {}
    return None, {}
