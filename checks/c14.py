"""C14 - GKLS functions have the promised structure and are reproducible."""
import json
import math
import os

import numpy as np

from vlib import scenario, bench

LEVEL = "exploration"
RULE = ("all 400 (dimension 2..5, number 1..100) functions in both tiers: structure read from public attributes (10 minimisers inside the box, pairwise non-overlapping balls, "
        "Calculate(M_i) = f_i, global minimiser at the class distance with the class radius and value -1, every other minimum strictly higher) and compared with the recorded "
        "reference data (golden/gkls.json, 1e-9 relative), Knuth's published check value of the lagged-Fibonacci generator; sampling on 100 (quick) / all 400 (thorough) "
        "functions: points outside all balls against the paraboloid recomputed by the harness, interior points against the ball minimum, pairs straddling every ball boundary "
        "at separation 2e-9*rho against a 1e-6 jump allowance, radial probes near every minimiser; 40 (quick) / 400 (thorough) pairs are constructed 6 times each in one process, interleaved, every construction and earlier instances compared with the reference. Non-trivial: every function; distinct = (dimension, number)."
       ' A third of the functions are solved a little first (console listener, with / without refinement) and must still equal the golden record.')
ASSUMPTIONS = ["class parameters (distance/radius) 0.9/0.2, 0.66/0.2, 0.66/0.2, 0.66/0.3 for dimensions 2..5 (the published 'simple' classes)",
               "golden/gkls.json was recorded once from the pinned tree; it anchors 'is always the same function', the structural clauses do not depend on it",
               "continuity is tested across ball boundaries (where the splice is) with an allowance 1e-6 at separation 2e-9*rho; a wrong spline coefficient produces jumps of 1e-2..1"]
CLASS = {2: (0.9, 0.2), 3: (0.66, 0.2), 4: (0.66, 0.2), 5: (0.66, 0.3)}
V = os.path.dirname(os.path.dirname(os.path.abspath(__file__)))
_golden = None
CHUNK = 2


def golden():
    global _golden
    if _golden is None:
        _golden = json.load(open(os.path.join(V, "golden", "gkls.json")))
    return _golden


def cases(tier, seed):
    out = [{"kind": "knuth"}]
    for n in (2, 3, 4, 5):
        for k0 in range(1, 101, 5):
            out.append({"kind": "fn", "n": n, "ks": list(range(k0, k0 + 5)), "seed": seed,
                        "sample": "all" if tier == "thorough" else "some"})
    # "function (n, k) is always the same function": the same pair is constructed again and again in one process,
    # interleaved with other constructions and with evaluations
    npairs = 40 if tier == "quick" else 400
    rng = scenario.rng_for(seed, "C14R", 0)
    allp = [(n, k) for n in (2, 3, 4, 5) for k in range(1, 101)]
    sel = [allp[int(j)] for j in rng.permutation(len(allp))[:npairs]]
    for j in range(0, len(sel), 4):
        out.append({"kind": "rebuild", "pairs": [list(q) for q in sel[j:j + 4]], "R": 6, "seed": seed, "j": j})
    return out


def structure_differs(p, n, k, known_optimum=True):
    g = golden()["functions"].get("%d_%d" % (n, k))
    mn = p.function.GKLS_minima
    M = np.array(mn.local_min, dtype=float)
    rho = np.array(mn.rho, dtype=float)
    f = np.array(mn.f, dtype=float)
    if not (close(M, g["local_min"]) and close(rho, g["rho"]) and close(f, g["f"])):
        return "structure"
    vals = [bench.evaluate(p, y) for y in probe_points(n, k)]
    if not close(vals, g["values"]):
        return "values"
    if known_optimum:
        ko_y, ko_v = bench.declared(p)
        if not close(ko_y, g["local_min"][1]) or ko_v != -1.0:
            return "known-optimum"
    return None


def basin_points(p, n, rng, per=3):
    """points strictly inside every attraction ball (where the cubic/quintic splice is evaluated)"""
    mn = p.function.GKLS_minima
    M = np.array(mn.local_min, dtype=float)
    rho = np.array(mn.rho, dtype=float)
    pts = []
    for i in range(1, len(rho)):
        for q in range(per):
            u = rng.normal(size=n)
            u /= np.sqrt((u ** 2).sum())
            x = M[i] + rho[i] * float(rng.uniform(0.1, 0.9)) * u
            if np.all(np.abs(x) <= 1):
                pts.append(x)
    return pts


def run_rebuild(c):
    viol, obs, keys = [], {}, []
    rng = scenario.rng_for(c["seed"], "C14R", c["j"] + 1)
    live = []
    schedule = [tuple(q) for q in c["pairs"]] * c["R"]
    order = rng.permutation(len(schedule))
    if c["j"] % 8 == 0:
        order = np.arange(len(schedule)).reshape(c["R"], -1).T.reshape(-1)      # the same pair R times in a row
    count = {}
    for idx in order:
        n, k = schedule[int(idx)]
        count[(n, k)] = count.get((n, k), 0) + 1
        p = bench.construct(("gkls", n, k))
        live.append((n, k, p, count[(n, k)]))
        obs["rebuild_constructions"] = obs.get("rebuild_constructions", 0) + 1
        what = structure_differs(p, n, k)
        if what and len(viol) < 6:
            viol.append({"mech": "gkls:construction-number-%d-differs-from-recorded-%s" % (min(count[(n, k)], 3), what), "n": n, "k": k,
                         "construction": count[(n, k)], "live_instances": len(live)})
        if rng.random() < 0.5:
            # an instance built earlier is audited again after later constructions
            n2, k2, p2, c2 = live[int(rng.integers(len(live)))]
            what = structure_differs(p2, n2, k2)
            obs["earlier_instances_reaudited"] = obs.get("earlier_instances_reaudited", 0) + 1
            if what and len(viol) < 6:
                viol.append({"mech": "gkls:earlier-instance-changed-%s" % what, "n": n2, "k": k2, "construction": c2})
    # one GKLSFunction object re-generated with other function numbers (public SetFunctionNumber): after the call the object
    # must be function (n, k') - structure and values, also inside basins that were evaluated before the re-generation
    for (n, k) in list(count)[:2]:
        p = bench.construct(("gkls", n, k))
        for k2 in [int(v) for v in rng.integers(1, 101, 3)] + [k]:
            for x in basin_points(p, n, rng) + list(probe_points(n, k)):
                bench.evaluate(p, x)
            p.function.SetFunctionNumber(k2)
            obs["regenerations"] = obs.get("regenerations", 0) + 1
            what = structure_differs(p, n, k2, known_optimum=False)
            if not what:
                # values inside the basins against a freshly constructed GKLS(n, k2)
                fresh = bench.construct(("gkls", n, k2))
                for x in basin_points(fresh, n, rng):
                    a, b = bench.evaluate(p, x), bench.evaluate(fresh, x)
                    obs["regenerated_basin_values"] = obs.get("regenerated_basin_values", 0) + 1
                    if not (a == b):
                        what = "basin-values"
                        break
            if what and len(viol) < 6:
                viol.append({"mech": "gkls:regenerated-object-differs-from-recorded-%s" % what, "n": n, "from": k, "to": k2})
    obs["max_constructions_of_one_pair"] = max(count.values())
    for (n, k) in count:
        keys.append("rebuild|%d|%d" % (n, k))
    return {"violations": viol, "obs": obs, "nontrivial": True, "keys": keys,
            "sample": {"kind": "repeated construction", "pairs": c["pairs"], "times_each": c["R"]} if c["j"] == 0 else None}


def close(a, b, rel=1e-9):
    a, b = np.asarray(a, dtype=float), np.asarray(b, dtype=float)
    return a.shape == b.shape and bool(np.all(np.abs(a - b) <= rel * np.maximum(1.0, np.maximum(np.abs(a), np.abs(b)))))


def probe_points(n, k):
    import hashlib
    h = hashlib.sha256(("gkls-golden|%d|%d" % (n, k)).encode()).digest()
    rng = np.random.default_rng(int.from_bytes(h[:8], "little"))
    return rng.uniform(-1, 1, (16, n))


def run_case(c):
    viol = []
    obs = {}
    if c["kind"] == "knuth":
        from iOpt.problems.GKLS_function.gkls_random import GKLSRandomGenerator as G
        g = G()
        rnd = np.zeros(G.NUM_RND)
        cond = np.zeros(G.KK)
        g.Initialize(310952, rnd, cond)
        for m in range(2009):
            g.GenerateNextNumbers()
        got = "%.20f" % cond[0]
        obs["knuth_check"] = 1
        if got != golden()["knuth_check"]["ran_u0"]:
            viol.append({"mech": "gkls:rng-check-value", "got": got, "expected": golden()["knuth_check"]["ran_u0"]})
        return {"violations": viol, "obs": obs, "nontrivial": True, "key": "knuth", "sample": {"kind": "Knuth ranf_start(310952), 2009 refills", "ran_u[0]": got}}
    if c["kind"] == "rebuild":
        return run_rebuild(c)
    n = c["n"]
    keys = []
    # all instances of the case are constructed first and stay alive (together with one of another dimension), so that
    # "function (n, k) is always the same function" is also observed while other GKLS objects exist and were built later
    pool = {k: bench.construct(("gkls", n, k)) for k in c["ks"]}
    other = bench.construct(("gkls", 2 + (n - 1) % 4, 1 + c["ks"][0] % 100))
    obs["live_instances_during_audit"] = len(pool) + 1
    for k in c["ks"]:
        rng = scenario.rng_for(c["seed"], "C14", "%d-%d" % (n, k))
        p = pool[k]
        if (n + k) % 3 == 0 and golden()["functions"].get("%d_%d" % (n, k)) is not None:
            # the object was solved a little first, as the shipped examples do (console listener attached, with / without refinement):
            # function (n, k) is the same function afterwards, and everything below is audited on the used object
            how = bench.use_instance(p, 1 + 2 * ((n + k) // 3 % 2) + 4 * k)
            obs["functions_audited_after:" + how] = obs.get("functions_audited_after:" + how, 0) + 1
            obs["functions_audited_after_use"] = obs.get("functions_audited_after_use", 0) + 1
            what = structure_differs(p, n, k)
            if what is not None:
                viol.append({"n": n, "k": k, "mech": "gkls:function-changed-by-use", "differs_in": what, "use": how})
        fn = p.function
        mn = fn.GKLS_minima
        M = np.array(mn.local_min, dtype=float)
        rho = np.array(mn.rho, dtype=float)
        f = np.array(mn.f, dtype=float)
        d = {"n": n, "k": k}
        keys.append("%d|%d" % (n, k))
        obs["functions"] = obs.get("functions", 0) + 1
        if M.shape != (10, n) or rho.shape != (10,) or f.shape != (10,):
            viol.append(dict(d, mech="gkls:ten-minimisers", shape=list(M.shape)))
            continue
        if np.any(M < -1) or np.any(M > 1):
            viol.append(dict(d, mech="gkls:minimiser-outside-box", which=int(np.argmax(np.any((M < -1) | (M > 1), axis=1)))))
        dist = np.sqrt(((M[:, None, :] - M[None, :, :]) ** 2).sum(axis=2))
        for i in range(10):
            for j in range(i + 1, 10):
                if rho[i] + rho[j] > dist[i, j] + 1e-9:
                    viol.append(dict(d, mech="gkls:attraction-balls-overlap", i=i, j=j, rho_i=float(rho[i]), rho_j=float(rho[j]), dist=float(dist[i, j])))
        if np.any(rho <= 0):
            viol.append(dict(d, mech="gkls:non-positive-radius", rho=rho.tolist()))
        for i in range(10):
            v = bench.evaluate(p, M[i])
            if abs(v - f[i]) > 1e-12 * max(1.0, abs(f[i])):
                viol.append(dict(d, mech="gkls:value-at-minimiser", i=i, calculate=float(v), prescribed=float(f[i])))
        cd, cr = CLASS[n]
        if abs(dist[0, 1] - cd) > 1e-9 or abs(rho[1] - cr) > 1e-12:
            viol.append(dict(d, mech="gkls:global-minimiser-class-parameters", distance=float(dist[0, 1]), radius=float(rho[1]), expected=[cd, cr]))
        if f[1] != -1.0:
            viol.append(dict(d, mech="gkls:global-minimum-value", value=float(f[1])))
        others = np.delete(f, 1)
        if np.any(others <= -1.0):
            viol.append(dict(d, mech="gkls:another-minimum-not-above-global", values=others.tolist()))
        if f[0] != 0.0:
            viol.append(dict(d, mech="gkls:paraboloid-minimum-value", value=float(f[0])))
        ko_y, ko_v = bench.declared(p)
        if not np.array_equal(ko_y, M[1]) or ko_v != -1.0:
            viol.append(dict(d, mech="gkls:known-optimum-not-global-minimiser", known=ko_y.tolist(), M1=M[1].tolist(), value=ko_v))
        # reference data
        g = golden()["functions"].get("%d_%d" % (n, k))
        if g is None:
            viol.append(dict(d, mech="gkls:no-reference"))
        else:
            if not (close(M, g["local_min"]) and close(rho, g["rho"]) and close(f, g["f"])):
                viol.append(dict(d, mech="gkls:differs-from-recorded-structure"))
            vals = [bench.evaluate(p, y) for y in probe_points(n, k)]
            if not close(vals, g["values"]):
                j = int(np.argmax(np.abs(np.array(vals) - np.array(g["values"]))))
                viol.append(dict(d, mech="gkls:differs-from-recorded-values", index=j, got=float(vals[j]), recorded=g["values"][j]))
            obs["reference_values_compared"] = obs.get("reference_values_compared", 0) + len(vals)
        # test_GKLS.py's own recorded value
        if (n, k) == (3, 1):
            # the value the repository's own test records for GKLS(3, 1)
            v31 = bench.evaluate(p, [0.9, 0.5, 0.3])
            obs["repo_test_value_checked"] = 1
            if abs(v31 - 0.93113217376043778) > 1e-12:
                viol.append(dict(d, mech="gkls:differs-from-recorded-values", what="test_GKLS.py reference", got=float(v31), recorded=0.93113217376043778))
        if c["sample"] == "some" and k % 4 != 1:
            continue
        obs["sampled_functions"] = obs.get("sampled_functions", 0) + 1
        T, t = M[0], f[0]
        # (2) outside all balls -> paraboloid
        npar = 0
        deep = c["sample"] == "all"
        X = rng.uniform(-1, 1, (4000 if deep else 400, n))
        for x in X:
            dd = np.sqrt(((M[1:] - x) ** 2).sum(axis=1))
            if np.all(dd > rho[1:] * (1 + 1e-9)):
                v = bench.evaluate(p, x)
                ref = float(((x - T) ** 2).sum()) + t
                npar += 1
                if abs(v - ref) > 1e-12 * max(1.0, abs(ref)):
                    if len(viol) < 8:
                        viol.append(dict(d, mech="gkls:not-paraboloid-outside-balls", x=x.tolist(), calculate=float(v), paraboloid=ref))
        # points ON the boundary of the box (faces, edges, corners: some coordinates exactly -1 or +1): still points of the box
        nface = 0
        for q in range(200 if deep else 60):
            x = rng.uniform(-1, 1, n)
            on = rng.random(n) < (0.5 if q % 3 else 1.0)
            if not on.any():
                on[int(rng.integers(n))] = True
            x = np.where(on, np.where(rng.random(n) < 0.5, -1.0, 1.0), x)
            dd = np.sqrt(((M[1:] - x) ** 2).sum(axis=1))
            if np.all(dd > rho[1:] * (1 + 1e-9)):
                v = bench.evaluate(p, x)
                ref = float(((x - T) ** 2).sum()) + t
                nface += 1
                if abs(v - ref) > 1e-12 * max(1.0, abs(ref)):
                    if len(viol) < 8:
                        viol.append(dict(d, mech="gkls:not-paraboloid-outside-balls", x=x.tolist(), calculate=float(v), paraboloid=ref, what="point on the boundary of the box"))
        # a point inside ball i, then EXACTLY its minimiser (and the other way round): the prescribed value f_i, whatever was evaluated before
        for i in range(1, 10):
            u = rng.normal(size=n)
            u /= np.sqrt((u ** 2).sum())
            xin = M[i] + rho[i] * float(rng.uniform(0.05, 0.9)) * u
            if np.any(np.abs(xin) > 1):
                xin = M[i] + rho[i] * 1e-3 * u
            bench.evaluate(p, xin)
            v = bench.evaluate(p, M[i])
            obs["minimiser_after_interior_point"] = obs.get("minimiser_after_interior_point", 0) + 1
            if not (abs(v - f[i]) <= 1e-12 * max(1.0, abs(f[i]))):
                if len(viol) < 8:
                    viol.append(dict(d, mech="gkls:value-at-minimiser", i=i, calculate=float(v), prescribed=float(f[i]), what="evaluated right after a point inside the same ball"))
        obs["box_boundary_points"] = obs.get("box_boundary_points", 0) + nface
        obs["paraboloid_points"] = obs.get("paraboloid_points", 0) + npar
        # (3),(4) inside balls and across boundaries
        for i in range(1, 10):
            for q in range(120 if deep else 24):
                u = rng.normal(size=n)
                u /= np.sqrt((u ** 2).sum())
                rr = rho[i] * float(rng.random()) ** (1.0 / n)
                if q < 4:
                    rr = rho[i] * 10 ** float(rng.uniform(-12, -6))      # radial probes next to the minimiser
                x = M[i] + rr * u
                if np.any(np.abs(x) > 1):
                    continue
                v = bench.evaluate(p, x)
                obs["interior_points"] = obs.get("interior_points", 0) + 1
                if v < f[i] - 1e-12:
                    if len(viol) < 8:
                        viol.append(dict(d, mech="gkls:interior-point-below-ball-minimum", i=i, x=x.tolist(), value=float(v), minimum=float(f[i])))
                if q < 4 and abs(v - f[i]) > 1e-6:
                    if len(viol) < 8:
                        viol.append(dict(d, mech="gkls:discontinuous-at-minimiser", i=i, r=rr, value=float(v), minimum=float(f[i])))
            for q in range(80 if deep else 16):
                u = rng.normal(size=n)
                u /= np.sqrt((u ** 2).sum())
                xin = M[i] + rho[i] * (1 - 1e-9) * u
                xout = M[i] + rho[i] * (1 + 1e-9) * u
                if np.any(np.abs(xout) > 1) or np.any(np.abs(xin) > 1):
                    continue
                # the outer point must not fall into another ball
                dd = np.sqrt(((M[1:] - xout) ** 2).sum(axis=1))
                if np.any(np.delete(dd, i - 1) <= np.delete(rho[1:], i - 1)):
                    continue
                vin, vout = bench.evaluate(p, xin), bench.evaluate(p, xout)
                obs["boundary_pairs"] = obs.get("boundary_pairs", 0) + 1
                obs["max_boundary_jump"] = max(obs.get("max_boundary_jump", 0.0), abs(vin - vout))
                if abs(vin - vout) > 1e-6:
                    if len(viol) < 8:
                        viol.append(dict(d, mech="gkls:jump-across-ball-boundary", i=i, inside=float(vin), outside=float(vout), rho=float(rho[i])))
    return {"violations": viol[:10], "obs": obs, "nontrivial": True, "keys": keys,
            "sample": {"kind": "GKLS functions", "n": n, "numbers": c["ks"], "sampled": obs.get("sampled_functions", 0)} if c["ks"][0] == 1 else None}


def EXHAUSTIVE(tier):
    return False


def finalize(obs, tier, stats):
    if obs.get("functions", 0) != 400:
        return "only %d of 400 functions audited" % obs.get("functions", 0), {}
    for k in ("knuth_check", "minimiser_after_interior_point", "box_boundary_points", "paraboloid_points", "interior_points", "boundary_pairs", "reference_values_compared", "live_instances_during_audit", "rebuild_constructions", "earlier_instances_reaudited", "regenerations", "regenerated_basin_values", "functions_audited_after_use"):
        if not obs.get(k):
            return "%s never observed" % k, {}
    if obs.get("max_constructions_of_one_pair", 0) < 5:
        return "no pair was constructed 5 times in one process", {}
    return None, {"structure_audited": "all 400 functions"}
