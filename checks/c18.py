"""C18 - problem metadata is well-formed and the published tables agree with the functions."""
import math

import numpy as np

from vlib import scenario, bench

LEVEL = "exploration"
RULE = ("every valid member of every family (Hill/Shekel 0..999, Grishagin 1..100, GKLS 2..5 x 1..100, Shekel4 1..3, Rastrigin/XSquared 1..12 and 16, 31, 32, 33, 64, 100, StronginC3: 2540 instances, "
        "all of them in both tiers) is constructed and its public fields audited; for all 2 x 1000 Hill/Shekel table rows the real Calculate is tied to the documented "
        "closed form at seeded points and the table's minimum, maximum (value and location) and Lipschitz constant are recomputed from a dense grid + bounded polish of the "
        "closed form and of its derivative. Non-trivial: every instance; distinct = family member."
       " Every fourth instance is audited again after use (iterations + SetBounds on the solver's evolvent, Solve with console listener, Solve with refinement, both): declared bounds unchanged.")
ASSUMPTIONS = ["table lookup is by role and tolerant of the naming slip in the Shekel module (maxShekel / lConstantShekel tried first, then maxHill / lConstantHill)",
               "extrema of the closed forms located on a 20001-point grid and polished by bounded scalar minimisation; tolerance as stated in the property (1e-4 values, 1e-4 of the range for locations, 0.1% constants)",
               "when two extrema are equal within the value tolerance either location is accepted"]
EXHAUSTIVE = True
CHUNK = 4


def cases(tier, seed):
    keys = bench.all_keys()
    out = []
    blk = 25
    for a in range(0, len(keys), blk):
        out.append({"kind": "meta", "keys": [list(k) for k in keys[a:a + blk]]})
    for fam in ("hill", "shekel"):
        for a in range(0, 1000, 20):
            out.append({"kind": "table", "fam": fam, "a": a, "b": a + 20, "seed": seed, "npts": 48 if tier == "quick" else 2000})
    return out


def check_meta(key, viol, obs, used=False, variant=0):
    p = bench.construct(tuple(key))
    if used:
        before = (np.array(p.lowerBoundOfFloatVariables, dtype=float).copy(), np.array(p.upperBoundOfFloatVariables, dtype=float).copy())
        how = bench.use_instance(p, variant)
        obs["used:" + how] = obs.get("used:" + how, 0) + 1
        obs["instances_audited_after_use"] = obs.get("instances_audited_after_use", 0) + 1
        after = (np.array(p.lowerBoundOfFloatVariables, dtype=float), np.array(p.upperBoundOfFloatVariables, dtype=float))
        if not (np.array_equal(before[0], after[0]) and np.array_equal(before[1], after[1])):
            viol.append({"key": key, "mech": "metadata:bounds-changed-by-use", "lower_before": before[0].tolist(), "lower_after": after[0].tolist(),
                         "upper_before": before[1].tolist(), "upper_after": after[1].tolist()})
    n = p.numberOfFloatVariables
    names, lo, hi = p.floatVariableNames, p.lowerBoundOfFloatVariables, p.upperBoundOfFloatVariables
    d = {"key": key}
    dim_attr = getattr(p, "dimension", n)
    if not (len(names) == n and len(lo) == n and len(hi) == n and dim_attr == n and n >= 1):
        viol.append(dict(d, mech="metadata:dimension-vs-vector-lengths", dimension=n, names=len(names), lower=len(lo), upper=len(hi), dimension_attr=dim_attr))
        return
    lo_a, hi_a = np.array(lo, dtype=float), np.array(hi, dtype=float)
    if not np.all(lo_a < hi_a):
        viol.append(dict(d, mech="metadata:lower-not-below-upper", lower=lo_a.tolist(), upper=hi_a.tolist()))
    if p.numberOfObjectives != 1:
        viol.append(dict(d, mech="metadata:number-of-objectives", value=p.numberOfObjectives))
    exp_dim = {"hill": 1, "shekel": 1, "grishagin": 2, "shekel4": 4, "stronginc3": 2}.get(key[0])
    if exp_dim is None:
        exp_dim = key[1]
    if n != exp_dim:
        viol.append(dict(d, mech="metadata:dimension", value=n, expected=exp_dim))
    try:
        ko = p.knownOptimum
        if len(ko) < 1:
            raise ValueError("empty")
        y = np.array(ko[0].point.floatVariables, dtype=float)
        v = ko[0].functionValues[0].value
        if len(y) != n:
            viol.append(dict(d, mech="metadata:known-optimum-length", length=len(y)))
        elif np.any(y < lo_a) or np.any(y > hi_a) or not np.all(np.isfinite(y)):
            viol.append(dict(d, mech="metadata:known-optimum-outside-box", point=y.tolist(), lower=lo_a.tolist(), upper=hi_a.tolist()))
        if not math.isfinite(float(v)):
            viol.append(dict(d, mech="metadata:known-optimum-value-not-finite", value=repr(v)))
    except Exception as e:
        viol.append(dict(d, mech="metadata:known-optimum-missing", exc=repr(e)))
    obs["instances"] = obs.get("instances", 0) + 1
    obs["fam_" + key[0]] = obs.get("fam_" + key[0], 0) + 1


def tables(fam):
    if fam == "hill":
        import iOpt.problems.Hill.hill_generation as g
        return g, g.minHill, g.maxHill, g.lConstantHill
    import iOpt.problems.Shekel.shekel_generation as g
    mx = getattr(g, "maxShekel", None)
    if mx is None:
        mx = g.maxHill
    lc = getattr(g, "lConstantShekel", None)
    if lc is None:
        lc = g.lConstantHill
    return g, g.minShekel, mx, lc


def closed_form(fam, g, k):
    """(f, df, lo, hi) vectorised closed form of function k and of its derivative, from the coefficient tables"""
    if fam == "hill":
        a = np.array(g.aHill[k], dtype=float)
        b = np.array(g.bHill[k], dtype=float)
        i = np.arange(g.NUM_HILL_COEFF, dtype=float)
        w = 2 * np.pi * i

        def f(x):
            x = np.atleast_1d(x)[:, None]
            return (a * np.sin(w * x) + b * np.cos(w * x)).sum(axis=1)

        def df(x):
            x = np.atleast_1d(x)[:, None]
            return (a * w * np.cos(w * x) - b * w * np.sin(w * x)).sum(axis=1)
        return f, df, 0.0, 1.0
    kk = np.array(g.kShekel[k], dtype=float)
    aa = np.array(g.aShekel[k], dtype=float)
    cc = np.array(g.cShekel[k], dtype=float)

    def f(x):
        x = np.atleast_1d(x)[:, None]
        return (-1.0 / (kk * (x - aa) ** 2 + cc)).sum(axis=1)

    def df(x):
        x = np.atleast_1d(x)[:, None]
        return (2 * kk * (x - aa) / (kk * (x - aa) ** 2 + cc) ** 2).sum(axis=1)
    return f, df, 0.0, 10.0


def polish_extreme(fun, grid, vals, lo, hi, want_min=True):
    """best value and location of fun over [lo,hi]: dense grid + bounded scalar polish around the best grid cells"""
    from scipy.optimize import minimize_scalar
    sgn = 1.0 if want_min else -1.0
    order = np.argsort(sgn * vals)[:6]
    h = grid[1] - grid[0]
    best_v, best_x = sgn * vals[order[0]], grid[order[0]]
    for i in order:
        a, b = max(lo, grid[i] - h), min(hi, grid[i] + h)
        r = minimize_scalar(lambda t: sgn * float(fun(np.array([t]))[0]), bounds=(a, b), method="bounded", options={"xatol": 1e-12})
        if r.fun < best_v:
            best_v, best_x = r.fun, r.x
    return sgn * best_v, best_x


def run_case(c):
    viol = []
    obs = {}
    if c["kind"] == "meta":
        for key in c["keys"]:
            check_meta(key, viol, obs)
            # every 4th instance (and every Shekel4 / StronginC3 / high-dimensional one) is audited a second time after it has been used
            hk = int.from_bytes(__import__("hashlib").sha256(repr(key).encode()).digest()[:2], "little")
            variant = hk // 4
            if key[0] in ("rastrigin", "xsquared") and key[1] > 12:
                variant = variant % 2 + 4 * (variant // 4)      # no local phase in 16..100 dimensions (minutes of simplex steps)
            if hk % 4 == 0 or key[0] in ("shekel4", "stronginc3") or (key[0] in ("rastrigin", "xsquared") and key[1] > 12):
                n0 = obs.get("instances", 0)
                check_meta(key, viol, obs, used=True, variant=variant)
                obs["instances"] = n0
        return {"violations": viol, "obs": obs, "nontrivial": True, "keys": ["meta|" + "|".join(map(str, k)) for k in c["keys"]],
                "sample": {"kind": "metadata audit", "instances": c["keys"][:3]} if c["keys"][0] in (["hill", 0], ["gkls", 2, 1]) else None}
    fam = c["fam"]
    g, tmin, tmax, tlc = tables(fam)
    rng = scenario.rng_for(c["seed"], "C18", "%s%d" % (fam, c["a"]))
    keys = []
    for k in range(c["a"], c["b"]):
        f, df, lo, hi = closed_form(fam, g, k)
        p = bench.construct((fam, k))
        # (a) the executed code agrees with the documented closed form
        xs = np.concatenate([[lo, hi], lo + rng.random(c.get("npts", 48)) * (hi - lo)])
        real = np.array([bench.evaluate(p, [x]) for x in xs])
        cf = f(xs)
        if np.any(np.abs(real - cf) > 1e-9 * np.maximum(1.0, np.abs(cf))):
            j = int(np.argmax(np.abs(real - cf)))
            viol.append({"mech": "tables:calculate-differs-from-closed-form", "fam": fam, "k": k, "x": float(xs[j]), "calculate": float(real[j]), "closed_form": float(cf[j])})
        obs["closed_form_points"] = obs.get("closed_form_points", 0) + len(xs)
        # (b) extremes of the closed form and of its derivative
        grid = np.linspace(lo, hi, 20001)
        vals = f(grid)
        vmin, xmin = polish_extreme(f, grid, vals, lo, hi, True)
        vmax, xmax = polish_extreme(f, grid, vals, lo, hi, False)
        dvals = np.abs(df(grid))
        lmax, xl = polish_extreme(lambda t: np.abs(df(t)), grid, dvals, lo, hi, False)
        rng_len = hi - lo
        tm, tM, tL = tmin[k], tmax[k], tlc[k]
        if abs(float(tm[0]) - vmin) > 1e-4:
            viol.append({"mech": "tables:minimum-value", "fam": fam, "k": k, "table": float(tm[0]), "recomputed": vmin})
        if abs(float(tm[1]) - xmin) > 1e-4 * rng_len and abs(float(f(np.array([float(tm[1])]))[0]) - vmin) > 1e-4:
            viol.append({"mech": "tables:minimum-location", "fam": fam, "k": k, "table": float(tm[1]), "recomputed": xmin})
        elif abs(float(tm[1]) - xmin) > 1e-4 * rng_len:
            # equal-valued second minimum: accept only if it is itself a local minimiser within the location tolerance
            lv, lx = polish_extreme(f, np.linspace(max(lo, float(tm[1]) - 2e-4 * rng_len), min(hi, float(tm[1]) + 2e-4 * rng_len), 401),
                                    f(np.linspace(max(lo, float(tm[1]) - 2e-4 * rng_len), min(hi, float(tm[1]) + 2e-4 * rng_len), 401)), lo, hi, True)
            obs["equal_minima_rows"] = obs.get("equal_minima_rows", 0) + 1
            if abs(lx - float(tm[1])) > 1e-4 * rng_len and abs(float(f(np.array([float(tm[1])]))[0]) - lv) > 1e-6:
                viol.append({"mech": "tables:minimum-location", "fam": fam, "k": k, "table": float(tm[1]), "recomputed": xmin})
        if abs(float(tM[0]) - vmax) > 1e-4:
            viol.append({"mech": "tables:maximum-value", "fam": fam, "k": k, "table": float(tM[0]), "recomputed": vmax})
        if abs(float(tM[1]) - xmax) > 1e-4 * rng_len and abs(float(f(np.array([float(tM[1])]))[0]) - vmax) > 1e-4:
            viol.append({"mech": "tables:maximum-location", "fam": fam, "k": k, "table": float(tM[1]), "recomputed": xmax})
        tLv = float(np.ravel(tL)[0])
        if abs(tLv - lmax) > 1e-3 * lmax:
            viol.append({"mech": "tables:lipschitz-constant", "fam": fam, "k": k, "table": tLv, "recomputed": lmax})
        obs["table_rows"] = obs.get("table_rows", 0) + 1
        obs["max_dev_min"] = max(obs.get("max_dev_min", 0.0), abs(float(tm[0]) - vmin))
        obs["max_dev_max"] = max(obs.get("max_dev_max", 0.0), abs(float(tM[0]) - vmax))
        obs["max_dev_L_rel"] = max(obs.get("max_dev_L_rel", 0.0), abs(tLv - lmax) / lmax)
        keys.append("table|%s|%d" % (fam, k))
    return {"violations": viol[:8], "obs": obs, "nontrivial": True, "keys": keys,
            "sample": {"kind": "table rows", "fam": fam, "rows": [c["a"], c["b"]], "row0": {"min": [float(v) for v in tmin[c["a"]]], "max": [float(v) for v in tmax[c["a"]]],
                                                                                             "L": float(np.ravel(tlc[c["a"]])[0])}} if c["a"] == 0 else None}


def finalize(obs, tier, stats):
    if not obs.get("instances_audited_after_use"):
        return "no instance was audited after use", {}
    need = len(bench.all_keys())
    if obs.get("instances", 0) != need:
        return "only %d of %d instances audited" % (obs.get("instances", 0), need), {}
    if obs.get("table_rows", 0) != 2000:
        return "only %d of 2000 table rows audited" % obs.get("table_rows", 0), {}
    return None, {}
