#!/usr/bin/env python3
"""Regenerates MANIFEST.json from the table below (kept in one place so it stays valid)."""
import json
import os

V = os.path.dirname(os.path.dirname(os.path.abspath(__file__)))
PY = "/venv/bin/python"

CHECKS = {}   # filled from checks/*.py docstrings + table


def entry(pid, category, text, note, technique, design_ref):
    return {
        "property_id": pid,
        "quick_cmd": "%s check.py %s --tier quick" % (PY, pid),
        "thorough_cmd": "%s check.py %s --tier thorough" % (PY, pid),
        "evidence_file": "/verif/evidence/%s.json" % pid,
        "replay_cmd_template": "%s check.py %s --replay {path}" % (PY, pid),
        "engine": "iopt-runtime-monitors",
        "level_claimed": {"category": category, "text": text, "design_ref": design_ref},
        "level_note": note,
        "technique": technique,
    }


TABLE = json.load(open(os.path.join(V, "tools", "manifest_table.json")))

def main():
    props = [json.loads(l)["id"] for l in open(os.path.join(V, "properties.jsonl"))]
    checks = []
    na = []
    for pid in props:
        row = TABLE.get(pid)
        if row and os.path.exists(os.path.join(V, "checks", pid.lower() + ".py")) and not row.get("not_applicable"):
            checks.append(entry(pid, row["category"], row["text"], row["note"], row["technique"], row.get("design_ref", "DESIGN.md section 5, " + pid)))
        else:
            na.append({"property_id": pid, "reason": (row or {}).get("not_applicable", "check not built yet (work in progress)")})
    m = {
        "version": 1,
        "setup_cmd": "%s tools/setup.py" % PY,
        "hooks": {
            "guard": "IOPT_VERIF",
            "enable": "no source hooks: the checks import /repo's working tree (PYTHONPATH=/repo, IOPT_VERIF=1 set in every worker) and attach harness-side recorders through the public API",
            "baseline_off_cmd": "cd /repo && env -u IOPT_VERIF /venv/bin/python -m pytest -ra -q -p no:cacheprovider --timeout=900 --continue-on-collection-errors",
            "source_commits": [],
            "add_only": True,
        },
        "engines": [{
            "name": "iopt-runtime-monitors", "path": "/verif/check.py",
            "serves_properties": [c["property_id"] for c in checks],
            "kind_free_text": "runtime monitoring: the real iOpt code is executed under seeded, hostile and exhaustive-small workloads in subprocess workers; boundary recorders (objective call log, listener callbacks, public-state snapshots) feed reference-model oracles and invariant checkers",
        }],
        "checks": checks,
        "notes": "Verdicts: exit 0 held / exit 1 VIOLATION / exit 2 INCONCLUSIVE / exit 3 HARNESS-ERROR. Genuine defects repaired by fix: commits are listed in known_findings.txt (fixed: lines suppress nothing).",
        "not_applicable": na,
    }
    json.dump(m, open(os.path.join(V, "MANIFEST.json"), "w"), indent=1)
    print("MANIFEST.json: %d checks, %d not_applicable" % (len(checks), len(na)))


if __name__ == "__main__":
    main()
