#!/bin/bash
# usage: tools/importbenign.sh <worktree dir> <id>    copies a property-preserving change into benign/<id>/, evaluates it, removes the worktree
set -e
wt=$1; id=$2; shift 2
V=$(cd "$(dirname "$0")/.." && pwd)
mkdir -p $V/benign/$id
( cd $wt && git diff -- iOpt > $V/benign/$id/patch.diff )
cp $wt/_out/meta.json $V/benign/$id/
/venv/bin/python $V/tools/trybenign.py $V/benign/$id --record "$@"
git -C /repo worktree remove --force $wt
