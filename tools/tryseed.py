#!/usr/bin/env python3
"""Evaluates one seeded change (a directory with patch.diff, demo_seeded.py, meta.json):
   1. scratch copy of /repo, patch applied there (never to /repo);
   2. the repository's own test suite must still pass on the patched copy;
   3. the demonstration must fail on the patched copy and pass on the unpatched tree;
   4. the named checks (default: the property in meta.json) are run against the patched copy.
usage: tools/tryseed.py <seed dir> [--checks C02,C03 | --all] [--tier quick]"""
import json
import os
import shutil
import subprocess
import sys
import tempfile

V = os.path.dirname(os.path.dirname(os.path.abspath(__file__)))
PY = "/venv/bin/python"


def main():
    d = os.path.abspath(sys.argv[1])
    meta = json.load(open(os.path.join(d, "meta.json")))
    checks = [meta["property"]]
    tier = "quick"
    a = sys.argv[2:]
    if "--checks" in a:
        checks = a[a.index("--checks") + 1].split(",")
    if "--all" in a:
        checks = ["C%02d" % i for i in range(1, 21)]
    if "--tier" in a:
        tier = a[a.index("--tier") + 1]
    skip_tests = "--skip-tests" in a
    tmp = tempfile.mkdtemp(prefix="iopt_seed_")
    out = {"seed": os.path.basename(d), "property": meta["property"]}
    try:
        repo = os.path.join(tmp, "repo")
        shutil.copytree("/repo", repo, ignore=shutil.ignore_patterns(".git", "docs", "__pycache__", "*.egg-info", "*.xls", "*.xml", "*.ipynb", "Machine_learning", "Genetic_algorithm"))
        r = subprocess.run(["patch", "-p1", "-i", os.path.join(d, "patch.diff")], cwd=repo, capture_output=True, text=True)
        if r.returncode != 0:
            out["error"] = "patch failed: " + r.stdout[-400:] + r.stderr[-400:]
            print(json.dumps(out, indent=1))
            return 2
        env = dict(os.environ, PYTHONPATH=repo, MPLBACKEND="Agg", PYTHONDONTWRITEBYTECODE="1")
        if not skip_tests:
            r = subprocess.run([PY, "-W", "ignore", "-m", "pytest", "-q", "-p", "no:cacheprovider", "--timeout=900", "test"], cwd=repo, env=env,
                               capture_output=True, text=True)
            out["tests"] = r.stdout.strip().splitlines()[-1] if r.stdout.strip() else r.stderr[-300:]
            out["tests_pass"] = r.returncode == 0
        demo = os.path.join(d, "demo_seeded.py")
        r1 = subprocess.run([PY, "-W", "ignore", demo], cwd=tmp, env=env, capture_output=True, text=True, timeout=1800)
        out["demo_with_change_rc"] = r1.returncode
        out["demo_with_change_tail"] = (r1.stdout + r1.stderr)[-300:]
        env0 = dict(env, PYTHONPATH="/repo")
        r0 = subprocess.run([PY, "-W", "ignore", demo], cwd=tmp, env=env0, capture_output=True, text=True, timeout=1800)
        out["demo_without_change_rc"] = r0.returncode
        out["checks"] = {}
        for pid in checks:
            e = dict(os.environ, IOPT_REPO=repo, VERIF_OUT=tmp)
            r = subprocess.run([PY, "-W", "ignore", os.path.join(V, "check.py"), pid, "--tier", tier], cwd=V, env=e, capture_output=True, text=True)
            first = ""
            for line in r.stdout.splitlines():
                if line.startswith("  violation") or line.startswith("INCONCLUSIVE") or line.startswith("HARNESS"):
                    first = line[:400]
                    break
            out["checks"][pid] = {"rc": r.returncode, "verdict": {0: "MISSED", 1: "CAUGHT", 2: "INCONCLUSIVE", 3: "HARNESS-ERROR"}.get(r.returncode, "?"), "first": first}
        print(json.dumps(out, indent=1))
        if "--record" in a:
            prev = meta.get("evaluation") or {}
            meta["evaluation"] = {"tests": out.get("tests", prev.get("tests")), "tests_pass": out.get("tests_pass", prev.get("tests_pass")),
                                  "demo_fails_with_change": out["demo_with_change_rc"] != 0,
                                  "demo_passes_without_change": out["demo_without_change_rc"] == 0,
                                  "checks": {k: v["verdict"] for k, v in out["checks"].items()},
                                  "first_witness": {k: v["first"][:300] for k, v in out["checks"].items() if v["first"]},
                                  "ran": "tools/tryseed.py (scratch copy of /repo with patch.diff applied; repo test suite; demo on both trees; checks with IOPT_REPO pointing at the patched copy), tier " + tier}
            json.dump(meta, open(os.path.join(d, "meta.json"), "w"), indent=1)
    finally:
        shutil.rmtree(tmp, ignore_errors=True)
    return 0


if __name__ == "__main__":
    sys.exit(main())
