# Writes the task file a seed-writing sub-agent receives (property text only, own scratch worktree of /repo under /tmp/wt; nothing from /verif).
# usage: python3 tools/mkseedtask.py <property id> <round tag> "<mechanisms already tried>" ["<hint>"]
import json, sys, subprocess, os
pid, tag, avoid, hint = sys.argv[1], sys.argv[2], sys.argv[3], (sys.argv[4] if len(sys.argv) > 4 else "")
props = {json.loads(l)["id"]: json.loads(l) for l in open("/verif/properties.jsonl")}
p = props[pid]
wt = "/tmp/wt/%s%s" % (pid, tag)
if not os.path.isdir(wt):
    subprocess.run(["git", "-C", "/repo", "worktree", "add", "--detach", wt, "HEAD"], check=True, capture_output=True)
os.makedirs(wt + "/_out", exist_ok=True)
T = """# Task: write a subtle property-breaking change to iOpt

You are helping test a verification effort. You have your own scratch git worktree of the repository
UNN-ITMM-Software/iOpt at `{wt}` (a Python global-optimisation framework: Strongin's AGP over a Peano evolvent,
benchmark problem generators). Work ONLY inside `{wt}`. Never read or touch `/repo` or `/verif` (do not even list them).
Do not commit; leave your edits in the working tree of `{wt}`.

## The property (this is all you are given)

```json
{prop}
```

## What to produce

A change to the library code under `{wt}/iOpt/` (not to tests) such that

1. the package still imports and the repository's test suite still passes exactly as before:
   `cd {wt} && PYTHONPATH={wt} MPLBACKEND=Agg /venv/bin/python -W ignore -m pytest -q -p no:cacheprovider --timeout=900 test`
   (expected on the unchanged tree: 91 passed);
2. the property above is genuinely violated by the changed code for some in-domain use of the public API;
3. the violation needs something SPECIFIC to manifest - a particular multi-step sequence of API calls, an unusual but valid
   input or parameter combination, a particular moment/iteration index, a fault at a particular point, or two cooperating
   edits that each look harmless alone. It must NOT be something that ordinary default use (one Solver, default parameters,
   one Solve on a shipped example) would expose at once, and it should look like a plausible, well-meant edit a maintainer might
   make (an optimisation, a refactoring, a robustness tweak, a cache), not sabotage. Keep it small (typically < 40 changed lines).
{hint}
4. Do NOT reuse these mechanisms, which have already been tried: {avoid}

Read the anchored source files first, understand the real mechanism, then design the change.

## Deliverables (all inside `{wt}/_out/`)

* `patch.diff` - output of `cd {wt} && git diff -- iOpt` (must apply with `patch -p1` to a clean tree).
* `demo_seeded.py` - a small stand-alone program that exercises the public API and exits with status 1 (printing what it observed)
  when the property is violated and status 0 otherwise. It must import iOpt from whatever tree PYTHONPATH points at (do not hard-code
  a path to the package; no sys.path tricks), run in under 2 minutes, and be deterministic. You must verify BOTH:
  `PYTHONPATH={wt} /venv/bin/python -W ignore _out/demo_seeded.py` exits 1 with your change, and exits 0 without it. IMPORTANT: do NOT use `git stash`
  (the stash is shared between worktrees and other people are working in sibling worktrees). Instead: `git diff -- iOpt > _out/patch.diff;
  git checkout -- iOpt; <run the demo: must exit 0>; patch -p1 < _out/patch.diff` (then re-check `git diff -- iOpt` equals patch.diff).
* `meta.json` - an object with keys: `property` ("{pid}"), `summary` (what was changed and why it breaks the property),
  `needs` (exactly what is required for the violation to manifest, and what stays unaffected), `files` (list of changed files),
  `tests_pass` (bool, from step 1), `demo_fails_with_change` (bool), `demo_passes_without_change` (bool).

Interpreter: `/venv/bin/python` (3.12, numpy 2.x, scipy, matplotlib with MPLBACKEND=Agg). There is no network.
Final answer: a 5-10 line summary of the change, what it needs to manifest, and the results of the three verifications.
"""
open(wt + "/_out/TASK.md", "w").write(T.format(wt=wt, prop=json.dumps(p, indent=1), avoid=avoid, pid=pid, hint=hint))
print(wt)
