#!/usr/bin/env python3
"""Evaluates one PROPERTY-PRESERVING change (benign/<id>/patch.diff + meta.json, written by a sub-agent that was asked to refactor an area
of the library without breaking any of the 20 properties): scratch copy of /repo with the patch applied (never /repo itself), the repository's
own tests, then the quick tier of ALL twenty checks against the copy.  Any exit code other than 0 is a false alarm (1), an evidence
requirement that depends on internals (2) or a harness dependency on internals (3) - each of them something to fix in /verif.
usage: tools/trybenign.py benign/<id> [--record] [--checks C02,C07]"""
import json
import os
import shutil
import subprocess
import sys
import tempfile

V = os.path.dirname(os.path.dirname(os.path.abspath(__file__)))
PY = "/venv/bin/python"


def main():
    d = os.path.abspath(sys.argv[1])
    a = sys.argv[2:]
    meta = json.load(open(os.path.join(d, "meta.json")))
    checks = ["C%02d" % i for i in range(1, 21)]
    if "--checks" in a:
        checks = a[a.index("--checks") + 1].split(",")
    tmp = tempfile.mkdtemp(prefix="iopt_benign_")
    out = {"benign": os.path.basename(d)}
    try:
        repo = os.path.join(tmp, "repo")
        shutil.copytree("/repo", repo, ignore=shutil.ignore_patterns(".git", "docs", "__pycache__", "*.egg-info", "*.xls", "*.xml", "*.ipynb", "Machine_learning",
                                                                    "Genetic_algorithm"))
        r = subprocess.run(["patch", "-p1", "-i", os.path.join(d, "patch.diff")], cwd=repo, capture_output=True, text=True)
        if r.returncode != 0:
            print("patch failed: " + r.stdout[-400:] + r.stderr[-400:])
            return 2
        env = dict(os.environ, PYTHONPATH=repo, MPLBACKEND="Agg", PYTHONDONTWRITEBYTECODE="1")
        r = subprocess.run([PY, "-W", "ignore", "-m", "pytest", "-q", "-p", "no:cacheprovider", "--timeout=900", "test"], cwd=repo, env=env, capture_output=True, text=True)
        out["tests"] = r.stdout.strip().splitlines()[-1] if r.stdout.strip() else r.stderr[-300:]
        out["tests_pass"] = r.returncode == 0
        out["checks"] = {}
        for pid in checks:
            e = dict(os.environ, IOPT_REPO=repo, VERIF_OUT=tmp)
            r = subprocess.run([PY, "-W", "ignore", os.path.join(V, "check.py"), pid, "--tier", "quick"], cwd=V, env=e, capture_output=True, text=True)
            first = ""
            for line in r.stdout.splitlines():
                if line.startswith("  violation") or line.startswith("INCONCLUSIVE") or line.startswith("HARNESS"):
                    first = line[:500]
                    break
            out["checks"][pid] = {"rc": r.returncode, "first": first}
            print(pid, r.returncode, first[:300])
            sys.stdout.flush()
        alarms = {k: v for k, v in out["checks"].items() if v["rc"] != 0}
        print("SILENT on all %d checks" % len(checks) if not alarms else "NOT SILENT: %s" % sorted(alarms))
        if "--record" in a:
            meta["evaluation"] = {"tests": out["tests"], "tests_pass": out["tests_pass"], "checks": {k: v["rc"] for k, v in out["checks"].items()},
                                  "not_silent": {k: v["first"][:300] for k, v in alarms.items()},
                                  "ran": "tools/trybenign.py (scratch copy with patch.diff applied; repo test suite; quick tier of the listed checks with IOPT_REPO pointing at the copy)"}
            json.dump(meta, open(os.path.join(d, "meta.json"), "w"), indent=1)
    finally:
        shutil.rmtree(tmp, ignore_errors=True)
    return 0


if __name__ == "__main__":
    sys.exit(main())
