#!/bin/bash
# usage: tools/sweep.sh <tier> <seed> [<seed> ...]    runs every check with evidence redirected to a scratch directory
tier=$1; shift
out=$(mktemp -d /tmp/verif_sweep_XXXX)
for seed in "$@"; do
  for c in C01 C02 C03 C04 C05 C06 C07 C08 C09 C10 C11 C12 C13 C14 C15 C16 C17 C18 C19 C20; do
    s=$(date +%s)
    VERIF_SEED=$seed VERIF_OUT=$out PYTHONHASHSEED=0 /venv/bin/python check.py $c --tier $tier > $out/$c.$seed.log 2>&1
    rc=$?
    echo "seed=$seed $c rc=$rc $(( $(date +%s) - s ))s $(grep -E 'VIOLATION|INCONCLUSIVE|HARNESS' $out/$c.$seed.log | head -1 | cut -c1-200)"
  done
done
echo "logs in $out"
