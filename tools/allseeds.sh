#!/bin/bash
# re-evaluates every seeded change against the current checks (scratch copies; /repo untouched) and records the verdicts
# usage: tools/allseeds.sh [parallelism]   (repo test suite skipped: it was run when the seed was imported)
V=$(cd "$(dirname "$0")/.." && pwd)
ls -d $V/seeded/*/ | while read d; do grep -q '"status": "superseded"' $d/meta.json || echo $d; done | xargs -P ${1:-3} -I{} sh -c '/venv/bin/python '$V'/tools/tryseed.py {} --skip-tests --record > /tmp/allseeds.$(basename {}).log 2>&1; echo "$(basename {}) $(grep -o "\"verdict\": \"[A-Z-]*\"" /tmp/allseeds.$(basename {}).log | head -1)"'
