#!/venv/bin/python
"""setup_cmd: nothing to build (pure Python, no third-party dependency beyond /venv's own packages).
Verifies the interpreter, the repository import path and the framework's self-test."""
import os
import subprocess
import sys

V = os.path.dirname(os.path.dirname(os.path.abspath(__file__)))
os.makedirs(os.path.join(V, "evidence"), exist_ok=True)
env = dict(os.environ, PYTHONPATH="/repo" + os.pathsep + V, PYTHONDONTWRITEBYTECODE="1", MPLBACKEND="Agg")
code = "import iOpt, numpy, scipy, depq, os; assert os.path.abspath(iOpt.__file__).startswith('/repo/'), iOpt.__file__; print('ok', numpy.__version__, scipy.__version__)"
r = subprocess.run(["/venv/bin/python", "-W", "ignore", "-c", code], env=env)
sys.exit(r.returncode)
