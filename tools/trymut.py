#!/usr/bin/env python3
"""Sensitivity testing of the monitors: applies one textual mutation to a scratch copy of /repo
(never to /repo itself), runs the named checks against it with IOPT_REPO pointing at the copy and
evidence redirected to the scratch directory, and reports the exit codes.

  tools/trymut.py --all [--jobs 4] [--only name,...]       run tools/mutants.json
  tools/trymut.py name file old new C02 C03                one ad-hoc mutant
"""
import concurrent.futures as cf
import json
import os
import shutil
import subprocess
import sys
import tempfile

V = os.path.dirname(os.path.dirname(os.path.abspath(__file__)))


def run_mutant(m, tier="quick", jobs=None):
    d = tempfile.mkdtemp(prefix="iopt_mut_%s_" % m["name"])
    try:
        repo = os.path.join(d, "repo")
        shutil.copytree("/repo", repo, ignore=shutil.ignore_patterns(".git", "docs", "__pycache__", "*.egg-info", "*.xls", "*.xml", "*.ipynb", "Machine_learning", "Genetic_algorithm"))
        edits = m.get("edits") or [{"file": m["file"], "old": m["old"], "new": m["new"]}]
        for e in edits:
            p = os.path.join(repo, e["file"])
            s = open(p, encoding="utf-8").read()
            c = s.count(e["old"])
            if c != e.get("count", 1):
                return m["name"], {"error": "pattern found %d times in %s" % (c, e["file"])}
            s = s.replace(e["old"], e["new"])
            open(p, "w", encoding="utf-8").write(s)
        res = {}
        for pid in m["props"]:
            env = dict(os.environ, IOPT_REPO=repo, VERIF_OUT=d)
            if jobs:
                env["VERIF_JOBS"] = str(jobs)
            r = subprocess.run(["/venv/bin/python", "-W", "ignore", os.path.join(V, "check.py"), pid, "--tier", tier],
                               cwd=V, env=env, capture_output=True, text=True)
            first = ""
            for line in r.stdout.splitlines():
                if line.startswith("  violation") or line.startswith("INCONCLUSIVE") or line.startswith("HARNESS"):
                    first = line[:260]
                    break
            res[pid] = {"rc": r.returncode, "first": first}
        return m["name"], res
    finally:
        shutil.rmtree(d, ignore_errors=True)


def main():
    a = sys.argv[1:]
    if a and a[0] == "--all":
        muts = json.load(open(os.path.join(V, "tools", "mutants.json")))
        par = 4
        only = None
        tier = "quick"
        if "--jobs" in a:
            par = int(a[a.index("--jobs") + 1])
        if "--only" in a:
            only = set(a[a.index("--only") + 1].split(","))
        if "--props" in a:
            ps = set(a[a.index("--props") + 1].split(","))
            muts = [dict(m, props=[p for p in m["props"] if p in ps]) for m in muts]
            muts = [m for m in muts if m["props"]]
        if "--tier" in a:
            tier = a[a.index("--tier") + 1]
        if only:
            muts = [m for m in muts if m["name"] in only]
        allres = {}
        with cf.ThreadPoolExecutor(par) as ex:
            for name, res in ex.map(lambda m: run_mutant(m, tier, jobs=max(2, 16 // par)), muts):
                if "error" in res:
                    print("%-34s ERROR %s" % (name, res["error"]))
                    allres[name] = {"error": res["error"]}
                    continue
                allres[name] = {}
                for pid, r in res.items():
                    tag = {0: "MISSED", 1: "CAUGHT", 2: "INCONCL", 3: "HARNESS"}.get(r["rc"], str(r["rc"]))
                    allres[name][pid] = {"verdict": tag, "first": r["first"][:220]}
                    print("%-34s %s %-8s %s" % (name, pid, tag, r["first"][:200]))
                sys.stdout.flush()
        if "--save" in a:
            path = os.path.join(V, "tools", "mutant_results.json")
            old = json.load(open(path)) if os.path.exists(path) else {}
            old.update(allres)
            json.dump(old, open(path, "w"), indent=1, sort_keys=True)
    else:
        name, file, old, new = a[:4]
        m = {"name": name, "file": file, "old": old, "new": new, "props": a[4:]}
        print(json.dumps(run_mutant(m), indent=1))


if __name__ == "__main__":
    main()
