#!/venv/bin/python
"""Records golden/gkls.json ONCE from the pinned tree: minimisers, radii, minimum values and 16 function values
per GKLS function (dimension 2..5 x number 1..100).  The checks never rewrite this file."""
import hashlib
import json
import os
import sys

import numpy as np

V = os.path.dirname(os.path.dirname(os.path.abspath(__file__)))
sys.path.insert(0, V)
from vlib import bench  # noqa


def probe_points(n, k):
    h = hashlib.sha256(("gkls-golden|%d|%d" % (n, k)).encode()).digest()
    rng = np.random.default_rng(int.from_bytes(h[:8], "little"))
    return rng.uniform(-1, 1, (16, n))


def main():
    out = {"note": "recorded from the pinned tree (repo HEAD %s); compared within 1e-9 relative" % os.popen("git -C /repo rev-parse --short HEAD").read().strip(),
           "knuth_check": {"seed": 310952, "refills": 2009, "ran_u0": "0.27452626307394156768"}, "functions": {}}
    for n in (2, 3, 4, 5):
        for k in range(1, 101):
            p = bench.construct(("gkls", n, k))
            mn = p.function.GKLS_minima
            pts = probe_points(n, k)
            out["functions"]["%d_%d" % (n, k)] = {
                "local_min": [[float(v) for v in row] for row in mn.local_min],
                "rho": [float(v) for v in mn.rho], "f": [float(v) for v in mn.f],
                "values": [float(bench.evaluate(p, y)) for y in pts]}
    with open(os.path.join(V, "golden", "gkls.json"), "w") as fh:
        json.dump(out, fh)
    print("recorded", len(out["functions"]))


if __name__ == "__main__":
    main()
