#!/bin/bash
# usage: tools/importseed.sh <worktree dir> <seed id> [tryseed args]   e.g. tools/importseed.sh /tmp/wt/C15b C15-b
# copies the sub-agent's deliverables into seeded/<id>/, evaluates them on a scratch copy (tools/tryseed.py --record)
# and removes the scratch worktree.
set -e
wt=$1; id=$2; shift 2
V=$(cd "$(dirname "$0")/.." && pwd)
mkdir -p $V/seeded/$id
( cd $wt && git diff -- iOpt > /tmp/importseed.$$.diff )
if ! diff -q /tmp/importseed.$$.diff $wt/_out/patch.diff >/dev/null 2>&1; then echo "note: patch.diff differs from the worktree diff; using the worktree diff"; fi
cp /tmp/importseed.$$.diff $V/seeded/$id/patch.diff; rm -f /tmp/importseed.$$.diff
cp $wt/_out/demo_seeded.py $wt/_out/meta.json $V/seeded/$id/
/venv/bin/python $V/tools/tryseed.py $V/seeded/$id --record "$@"
git -C /repo worktree remove --force $wt
