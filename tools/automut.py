#!/usr/bin/env python3
"""Systematic mutation testing of the monitors.

Generates first-order mutants of the anchored source files with the `ast` module (comparison flips, arithmetic operator swaps,
constant perturbations, boolean flips, statement deletion), applies each to a scratch copy of /repo (never to /repo itself) and

  1. discards mutants that do not import or that the repository's own test suite kills (the brief asks for changes that still
     pass the existing tests);
  2. runs the quick tier of the checks that own the mutated file against the copy (IOPT_REPO), evidence redirected;
  3. reports KILLED (some check exits 1), SURVIVED (all exit 0) or the odd exit code.

Survivors are either equivalent mutants or blind spots; they are listed for manual analysis (tools/automut_results.json).

usage: tools/automut.py [--files a.py,b.py] [--sample N] [--seed S] [--par 4] [--save]
"""
import ast
import copy
import hashlib
import json
import os
import random
import shutil
import subprocess
import sys
import tempfile
import concurrent.futures as cf

V = os.path.dirname(os.path.dirname(os.path.abspath(__file__)))
PY = "/venv/bin/python"
OWNERS = {
    "iOpt/method/method.py": ["C02", "C03", "C04", "C01", "C06", "C11", "C16"],
    "iOpt/method/process.py": ["C03", "C04", "C05", "C11", "C13", "C16", "C02"],
    "iOpt/method/search_data.py": ["C19", "C06", "C02", "C12", "C16"],
    "iOpt/method/optim_task.py": ["C04", "C06", "C16", "C03"],
    "iOpt/evolvent/evolvent.py": ["C07", "C08", "C09", "C17", "C20"],
    "iOpt/solver.py": ["C20", "C12", "C13", "C02"],
    "iOpt/solution.py": ["C12", "C04"],
    "iOpt/problems/hill.py": ["C10", "C18", "C15"],
    "iOpt/problems/shekel.py": ["C10", "C18", "C15"],
    "iOpt/problems/shekel4.py": ["C10", "C18", "C15"],
    "iOpt/problems/rastrigin.py": ["C10", "C18", "C15"],
    "iOpt/problems/xsquared.py": ["C10", "C18", "C15"],
    "iOpt/problems/stronginC3.py": ["C10", "C18", "C15"],
    "iOpt/problems/grishagin.py": ["C10", "C18", "C15"],
    "iOpt/problems/GKLS.py": ["C14", "C10", "C18", "C15"],
    "iOpt/problems/grishagin_function/grishagin_function.py": ["C10", "C15"],
    "iOpt/problems/GKLS_function/gkls_function.py": ["C14", "C10", "C15"],
    "iOpt/problems/GKLS_function/gkls_random.py": ["C14"],
    "iOpt/output_system/console/console_output.py": ["C13"],
}
CMP = {ast.Lt: [ast.LtE, ast.Gt], ast.LtE: [ast.Lt], ast.Gt: [ast.GtE, ast.Lt], ast.GtE: [ast.Gt], ast.Eq: [ast.NotEq], ast.NotEq: [ast.Eq],
       ast.Is: [ast.IsNot], ast.IsNot: [ast.Is]}
BIN = {ast.Add: [ast.Sub], ast.Sub: [ast.Add], ast.Mult: [ast.Div], ast.Div: [ast.Mult], ast.Pow: [ast.Mult]}


class Collector(ast.NodeVisitor):
    """enumerates mutation sites as (kind, node id path, variant index, description)"""

    def __init__(self):
        self.sites = []
        self.in_doc = False

    def generic_visit(self, node):
        for i, (field, value) in enumerate(ast.iter_fields(node)):
            pass
        super().generic_visit(node)

    # type annotations and return annotations are not behaviour
    def visit_arg(self, node):
        return

    def visit_FunctionDef(self, node):
        for d in node.args.defaults + node.args.kw_defaults:
            if d is not None:
                self.visit(d)
        for st in node.body:
            self.visit(st)

    def visit_AnnAssign(self, node):
        if node.value is not None:
            self.visit(node.value)

    def visit_Compare(self, node):
        for k, op in enumerate(node.ops):
            for v in CMP.get(type(op), []):
                self.sites.append(("cmp", id(node), (k, v), "line %d: %s -> %s" % (node.lineno, type(op).__name__, v.__name__)))
        self.generic_visit(node)

    def visit_BinOp(self, node):
        for v in BIN.get(type(node.op), []):
            self.sites.append(("bin", id(node), v, "line %d: %s -> %s" % (node.lineno, type(node.op).__name__, v.__name__)))
        self.generic_visit(node)

    def visit_AugAssign(self, node):
        for v in BIN.get(type(node.op), []):
            self.sites.append(("aug", id(node), v, "line %d: aug %s -> %s" % (node.lineno, type(node.op).__name__, v.__name__)))
        self.generic_visit(node)

    def visit_BoolOp(self, node):
        v = ast.Or if isinstance(node.op, ast.And) else ast.And
        self.sites.append(("bool", id(node), v, "line %d: %s -> %s" % (node.lineno, type(node.op).__name__, v.__name__)))
        self.generic_visit(node)

    def visit_UnaryOp(self, node):
        if isinstance(node.op, ast.Not):
            self.sites.append(("not", id(node), None, "line %d: drop 'not'" % node.lineno))
        if isinstance(node.op, ast.USub):
            self.sites.append(("neg", id(node), None, "line %d: drop unary minus" % node.lineno))
        self.generic_visit(node)

    def visit_Constant(self, node):
        if isinstance(node.value, bool):
            self.sites.append(("const", id(node), not node.value, "line %d: %r -> %r" % (node.lineno, node.value, not node.value)))
        elif isinstance(node.value, (int, float)) and not isinstance(node.value, bool):
            for nv in ({0: [1], 1: [0, 2], 2: [1, 3]}.get(node.value) or [node.value + 1, node.value * 0.5 if isinstance(node.value, float) else node.value - 1]):
                self.sites.append(("const", id(node), nv, "line %d: %r -> %r" % (node.lineno, node.value, nv)))

    def visit_Expr(self, node):
        if isinstance(node.value, ast.Call):
            self.sites.append(("del", id(node), None, "line %d: delete call statement" % node.lineno))
        if isinstance(node.value, ast.Constant) and isinstance(node.value.value, str):
            return     # docstring
        self.generic_visit(node)

    def visit_Assign(self, node):
        if len(node.targets) == 1 and isinstance(node.targets[0], (ast.Attribute, ast.Subscript)):
            self.sites.append(("del", id(node), None, "line %d: delete assignment" % node.lineno))
        self.generic_visit(node)

    def visit_If(self, node):
        self.sites.append(("iftrue", id(node), None, "line %d: if-condition forced True" % node.lineno))
        self.sites.append(("iffalse", id(node), None, "line %d: if-condition forced False" % node.lineno))
        self.generic_visit(node)


def mutants_of(src):
    """yields (description, mutated source)"""
    tree = ast.parse(src)
    col = Collector()
    col.visit(tree)
    # stable addressing: index of the node in a deterministic walk
    order = {id(n): i for i, n in enumerate(ast.walk(tree))}
    sites = [(k, order[nid], var, desc) for k, nid, var, desc in col.sites]
    for kind, idx, var, desc in sites:
        t = ast.parse(src)
        nodes = list(ast.walk(t))
        node = nodes[idx]
        if kind == "cmp":
            node.ops[var[0]] = var[1]()
        elif kind in ("bin", "aug", "bool"):
            node.op = var()
        elif kind in ("not", "neg"):
            # replace the UnaryOp by its operand: find the parent
            for p in nodes:
                for f, val in ast.iter_fields(p):
                    if val is node:
                        setattr(p, f, node.operand)
                    elif isinstance(val, list):
                        for j, e in enumerate(val):
                            if e is node:
                                val[j] = node.operand
        elif kind == "const":
            node.value = var
        elif kind == "del":
            for p in nodes:
                for f, val in ast.iter_fields(p):
                    if isinstance(val, list):
                        for j, e in enumerate(val):
                            if e is node:
                                val[j] = ast.Pass()
        elif kind == "iftrue":
            node.test = ast.Constant(True)
        elif kind == "iffalse":
            node.test = ast.Constant(False)
        try:
            out = ast.unparse(ast.fix_missing_locations(t))
        except Exception:
            continue
        yield desc, out


def run_one(job):
    file, desc, msrc, checks, jobs = job
    d = tempfile.mkdtemp(prefix="automut_")
    res = {"file": file, "desc": desc}
    try:
        repo = os.path.join(d, "repo")
        shutil.copytree("/repo", repo, ignore=shutil.ignore_patterns(".git", "docs", "__pycache__", "*.egg-info", "*.xls", "*.xml", "*.ipynb", "Machine_learning",
                                                                    "Genetic_algorithm"))
        open(os.path.join(repo, file), "w", encoding="utf-8").write(msrc)
        env = dict(os.environ, PYTHONPATH=repo, MPLBACKEND="Agg", PYTHONDONTWRITEBYTECODE="1")
        r = subprocess.run([PY, "-W", "ignore", "-m", "pytest", "-x", "-q", "-p", "no:cacheprovider", "--timeout=600", "test"], cwd=repo, env=env,
                           capture_output=True, text=True, timeout=1500)
        if r.returncode != 0:
            res["status"] = "killed-by-repo-tests"
            return res
        res["checks"] = {}
        status = "SURVIVED"
        for pid in checks:
            e = dict(os.environ, IOPT_REPO=repo, VERIF_OUT=d, VERIF_JOBS=str(jobs))
            r = subprocess.run([PY, "-W", "ignore", os.path.join(V, "check.py"), pid, "--tier", "quick"], cwd=V, env=e, capture_output=True, text=True,
                               timeout=3600)
            first = ""
            for line in r.stdout.splitlines():
                if line.startswith("  violation") or line.startswith("INCONCLUSIVE") or line.startswith("HARNESS"):
                    first = line[:240]
                    break
            res["checks"][pid] = {"rc": r.returncode, "first": first}
            if r.returncode == 1:
                status = "KILLED"
                break          # first killing check is enough
            if r.returncode != 0 and status == "SURVIVED":
                status = "rc%d" % r.returncode
        res["status"] = status
        return res
    except subprocess.TimeoutExpired:
        res["status"] = "timeout"
        return res
    finally:
        shutil.rmtree(d, ignore_errors=True)


def main():
    a = sys.argv[1:]
    files = list(OWNERS)
    if "--files" in a:
        files = a[a.index("--files") + 1].split(",")
    sample = int(a[a.index("--sample") + 1]) if "--sample" in a else 40
    seed = int(a[a.index("--seed") + 1]) if "--seed" in a else 0
    par = int(a[a.index("--par") + 1]) if "--par" in a else 4
    allm = []
    for f in files:
        src = open(os.path.join("/repo", f), encoding="utf-8").read()
        for desc, msrc in mutants_of(src):
            if msrc.strip() == ast.unparse(ast.parse(src)).strip():
                continue
            allm.append((f, desc, msrc, OWNERS[f], max(2, 16 // par)))
    rnd = random.Random(seed)
    rnd.shuffle(allm)
    pres = os.path.join(V, "tools", "automut_results.json")
    done = {r["file"] + "|" + r["desc"] for r in (json.load(open(pres)) if os.path.exists(pres) else [])}
    allm = [m for m in allm if m[0] + "|" + m[1] not in done]      # mutants evaluated in earlier runs are not repeated
    jobs = allm[:sample]
    print("%d mutation sites in %d files, running %d" % (len(allm), len(files), len(jobs)))
    sys.stdout.flush()
    out = []
    with cf.ThreadPoolExecutor(par) as ex:
        for res in ex.map(run_one, jobs):
            out.append(res)
            print("%-22s %-50s %-40s %s" % (res["status"], res["file"], res["desc"], json.dumps({k: v["rc"] for k, v in res.get("checks", {}).items()})))
            sys.stdout.flush()
    if "--save" in a:
        p = os.path.join(V, "tools", "automut_results.json")
        old = json.load(open(p)) if os.path.exists(p) else []
        keyf = lambda r: r["file"] + "|" + r["desc"]
        merged = {keyf(r): r for r in old}
        merged.update({keyf(r): r for r in out})
        json.dump(sorted(merged.values(), key=keyf), open(p, "w"), indent=1)
    n = {}
    for r in out:
        n[r["status"]] = n.get(r["status"], 0) + 1
    print("summary:", n)


if __name__ == "__main__":
    main()
