"""Lipschitz-certified 1-D branch and bound on a black-box callable.

certify_no_lower(f, lo, hi, L, level): explores [lo,hi] by bisection; an interval with centre c and half width h is discarded
when f(c) - L*h >= level (no point of it can be below `level`).  Returns (ok, best_value, best_x, evaluations, witness)
where ok means every point of [lo,hi] has f >= level (given that L really bounds |f'|), and witness is a point with
f < level if one was met."""


def certify_no_lower(f, lo, hi, L, level, min_width=1e-9, max_evals=200000):
    stack = [(lo, hi)]
    best_v, best_x = float("inf"), None
    evals = 0
    unresolved = []
    while stack:
        a, b = stack.pop()
        c = 0.5 * (a + b)
        h = 0.5 * (b - a)
        v = f(c)
        evals += 1
        if v < best_v:
            best_v, best_x = v, c
        if v < level:
            return False, best_v, best_x, evals, c
        if v - L * h >= level:
            continue
        if (b - a) <= min_width * (hi - lo) or evals >= max_evals:
            unresolved.append((a, b))
            continue
        stack.append((a, c))
        stack.append((c, b))
    # end points are covered by the half-width bound of their intervals
    return (len(unresolved) == 0), best_v, best_x, evals, None


def minimise_certified(f, lo, hi, L, tol, max_evals=200000):
    """Global minimum of an L-Lipschitz f on [lo,hi] within tol: returns (lower_bound, best_value, best_x, evaluations)."""
    import heapq
    c = 0.5 * (lo + hi)
    v = f(c)
    best_v, best_x = v, c
    heap = [(v - L * 0.5 * (hi - lo), lo, hi, v)]
    evals = 1
    while heap:
        lb, a, b, vc = heapq.heappop(heap)
        if lb >= best_v - tol or evals >= max_evals:
            heapq.heappush(heap, (lb, a, b, vc))
            break
        m = 0.5 * (a + b)
        for (x0, x1) in ((a, m), (m, b)):
            cc = 0.5 * (x0 + x1)
            vv = f(cc)
            evals += 1
            if vv < best_v:
                best_v, best_x = vv, cc
            heapq.heappush(heap, (vv - L * 0.5 * (x1 - x0), x0, x1, vv))
    lower = min(h[0] for h in heap) if heap else best_v
    return min(lower, best_v), best_v, best_x, evals
