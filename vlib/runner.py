"""Runner: shards the cases of one check over subprocess workers, aggregates what the
monitors observed, writes evidence/<id>.json and prints the verdict.

Verdicts (three-valued, see DESIGN.md section 2):
  exit 0  held on everything explored
  exit 1  VIOLATION property=<id> replay=<path>      (witness against the real code)
  exit 2  INCONCLUSIVE property=<id> reason=...      (monitor not reached / too few cases / watchdog)
  exit 3  HARNESS-ERROR                               (a bug in /verif code; says nothing about /repo)
"""
import concurrent.futures as cf
import hashlib
import importlib
import json
import os
import shutil
import subprocess
import sys
import time

VERIF = os.path.dirname(os.path.dirname(os.path.abspath(__file__)))
REPO = os.environ.get("IOPT_REPO", "/repo")
PY = "/venv/bin/python"
JOBS = int(os.environ.get("VERIF_JOBS", "16"))
OUT = os.environ.get("VERIF_OUT", VERIF)     # evidence/, replays/, .work/ go here (mutation runs redirect it)


def worker_env():
    env = dict(os.environ)
    env["PYTHONPATH"] = REPO + os.pathsep + VERIF + (os.pathsep + os.path.join(VERIF, ".deps")
                                                     if os.path.isdir(os.path.join(VERIF, ".deps")) else "")
    env["PYTHONDONTWRITEBYTECODE"] = "1"
    env["MPLBACKEND"] = "Agg"
    env.setdefault("PYTHONHASHSEED", "0")
    env["IOPT_VERIF"] = "1"
    env["IOPT_REPO"] = REPO
    env["OMP_NUM_THREADS"] = "1"
    env["OPENBLAS_NUM_THREADS"] = "1"
    env["MKL_NUM_THREADS"] = "1"
    return env


def case_hash(pid, case):
    return hashlib.sha256((pid + json.dumps(case, sort_keys=True, default=str)).encode()).hexdigest()[:16]


def load_known(pid):
    known = {}
    path = os.path.join(VERIF, "known_findings.txt")
    if os.path.exists(path):
        for line in open(path, encoding="utf-8"):
            line = line.strip()
            if not line.startswith("known:"):
                continue
            parts = line[len("known:"):].split()
            kv = dict(p.split("=", 1) for p in parts if "=" in p and p.split("=", 1)[0] in ("property", "mech"))
            if kv.get("property") == pid and "mech" in kv:
                known[kv["mech"]] = line
    return known


def _run_shard(args):
    pid, shard_path, out_path, timeout = args
    t0 = time.time()
    cmd = [PY, "-X", "faulthandler", "-m", "vlib.worker", pid, shard_path, out_path]
    try:
        p = subprocess.run(cmd, cwd=VERIF, env=worker_env(), timeout=timeout,
                           stdout=subprocess.PIPE, stderr=subprocess.PIPE, text=True, errors="replace")
        return {"rc": p.returncode, "stderr": p.stderr[-4000:], "stdout": p.stdout[-2000:], "wall": time.time() - t0,
                "timeout": False}
    except subprocess.TimeoutExpired as e:
        return {"rc": None, "stderr": (e.stderr or b"")[-2000:] if isinstance(e.stderr, (bytes, str)) else "",
                "stdout": "", "wall": time.time() - t0, "timeout": True}


def main(pid, tier, seed, replay=None, jobs=None):
    pid = pid.upper()
    mod = importlib.import_module("checks." + pid.lower())
    jobs = jobs or JOBS
    t0 = time.time()

    if replay:
        return replay_case(pid, mod, replay)

    cases = mod.cases(tier, seed)
    ncases = len(cases)
    work = os.path.join(OUT, ".work", "%s-%s-%d" % (pid, tier, os.getpid()))
    shutil.rmtree(work, ignore_errors=True)
    os.makedirs(work)
    # deterministic shuffle so expensive cases spread out; workers claim small chunks dynamically
    order = sorted(range(ncases), key=lambda i: hashlib.sha256(("%d:%d" % (seed, i)).encode()).hexdigest())
    nworkers = max(1, min(jobs, ncases))
    chunk = max(1, min(getattr(mod, "CHUNK", 8), ncases // (nworkers * 4) or 1))
    chunks = [order[k:k + chunk] for k in range(0, ncases, chunk)]
    timeout = getattr(mod, "SHARD_TIMEOUT", {"quick": 900, "thorough": 5400})[tier]
    sp = os.path.join(work, "cases.json")
    with open(sp, "w") as fh:
        json.dump({"tier": tier, "seed": seed, "chunks": [[[i, cases[i]] for i in ch] for ch in chunks]}, fh)
    tasks = [(pid, sp, os.path.join(work, "out%03d.jsonl" % w), timeout) for w in range(nworkers)]
    shards = [order] + [[] for _ in range(nworkers - 1)]

    with cf.ThreadPoolExecutor(max_workers=nworkers) as ex:
        shard_status = list(ex.map(_run_shard, tasks))

    results = {}
    reach = {}
    harness_errors = []
    inconclusive = []
    for st, task, idxs in zip(shard_status, tasks, shards):
        outp = task[2]
        got = set()
        if os.path.exists(outp):
            for line in open(outp):
                try:
                    rec = json.loads(line)
                except Exception:
                    continue
                if rec.get("kind") == "reach":
                    for k, v in rec["table"].items():
                        reach[k] = reach.get(k, 0) + v
                    continue
                results[rec["index"]] = rec
                got.add(rec["index"])
        missing = []
        if st["timeout"]:
            inconclusive.append("worker watchdog fired (%ds)" % timeout)
        elif st["rc"] != 0:
            if st["rc"] is not None and st["rc"] < 0 or "Fatal Python error" in (st["stderr"] or ""):
                inconclusive.append("worker crashed natively rc=%s: %s" % (st["rc"], (st["stderr"] or "")[-600:]))
            else:
                harness_errors.append("worker rc=%s: %s" % (st["rc"], (st["stderr"] or "")[-1500:]))
    if len(results) < ncases and not inconclusive and not harness_errors:
        harness_errors.append("workers finished but %d cases are missing" % (ncases - len(results)))

    # ---- aggregate
    obs = {}
    aggs = []
    violations = []
    samples = []
    keys = set()
    nontrivial_cases = 0
    skipped = {}
    for i in sorted(results):
        rec = results[i]
        if rec.get("harness_error"):
            harness_errors.append("case %d: %s" % (i, rec["harness_error"][-1500:]))
            continue
        r = rec["result"]
        for k, v in (r.get("obs") or {}).items():
            if isinstance(v, (int, float)) and not isinstance(v, bool):
                if k.startswith("max_"):
                    obs[k] = max(obs.get(k, v), v)
                elif k.startswith("min_"):
                    obs[k] = min(obs.get(k, v), v)
                else:
                    obs[k] = obs.get(k, 0) + v
            elif isinstance(v, list):
                cur = obs.setdefault(k, [])
                for e in v:
                    if e not in cur and len(cur) < 200:
                        cur.append(e)
        if r.get("agg") is not None:
            aggs.append((i, r["agg"]))
        if r.get("inconclusive"):
            inconclusive.append("case %d: %s" % (i, r["inconclusive"]))
        if r.get("skip"):
            skipped[r["skip"]] = skipped.get(r["skip"], 0) + 1
        for k in r.get("keys") or ([r["key"]] if r.get("key") else []):
            if k not in keys:
                keys.add(k)
        if r.get("nontrivial"):
            nontrivial_cases += 1
        if r.get("sample") is not None and len(samples) < 6:
            samples.append(r["sample"])
        for v in r.get("violations") or []:
            violations.append((i, v))

    fin_reason, extra = None, {}
    if hasattr(mod, "finalize"):
        fin = mod.finalize(obs, tier, {"cases": ncases, "nontrivial": nontrivial_cases, "distinct": len(keys),
                                       "skipped": skipped, "agg": aggs, "results": len(results)})
        fin_reason, extra = fin[0], fin[1]
        if len(fin) > 2:
            for v in fin[2]:
                violations.append((v.get("case_index", 0), v))
    known = load_known(pid)
    new_viol = []
    known_hits = {}
    for i, v in violations:
        m = v.get("mech")
        if m is not None and m in known:
            known_hits.setdefault(m, []).append((i, v))
        else:
            new_viol.append((i, v))

    replay_paths = []
    if new_viol:
        rdir = os.path.join(OUT, "replays", pid)
        os.makedirs(rdir, exist_ok=True)
        seen = set()
        for i, v in new_viol:
            if i in seen:
                continue
            seen.add(i)
            if len(seen) > 25:
                break
            h = case_hash(pid, cases[i])
            path = os.path.join(rdir, h + ".json")
            with open(path, "w") as fh:
                json.dump({"property": pid, "tier": tier, "seed": seed, "case_index": i, "case": cases[i],
                           "violations": [vv for ii, vv in new_viol if ii == i][:20]}, fh, indent=1, default=str)
            replay_paths.append(path)

    wall = time.time() - t0
    distinct = len(keys) if keys else nontrivial_cases
    if fin_reason:
        inconclusive.append(fin_reason)
    if len(results) == 0:
        inconclusive.append("no case produced a result")
    if distinct < 2:
        inconclusive.append("fewer than 2 distinct non-trivial cases")

    coverage = {
        "evaluations": len(results),
        "distinct_nontrivial": distinct,
        "rule": getattr(mod, "RULE", ""),
        "samples": samples if samples else [cases[i] for i in sorted(results)[:2]],
        "observed": obs,
        "skipped": skipped,
        "reach_iopt_function_calls_sampled": dict(sorted(reach.items(), key=lambda kv: -kv[1])[:40]),
        "known_findings_matched": {m: len(v) for m, v in known_hits.items()},
        "inconclusive_reasons": inconclusive,
        "harness_errors": harness_errors[:5],
        "chunks": len(chunks), "workers": nworkers,
        "repo_head": _repo_head(),
    }
    coverage.update(extra or {})
    if getattr(mod, "EXHAUSTIVE", None) is not None:
        coverage["exhaustive"] = bool(mod.EXHAUSTIVE(tier)) if callable(mod.EXHAUSTIVE) else bool(mod.EXHAUSTIVE)
    ev = {
        "property_id": pid, "tier": tier, "seed": seed, "level": getattr(mod, "LEVEL", "exploration"),
        "coverage": coverage, "assumptions": getattr(mod, "ASSUMPTIONS", []), "wall_s": round(wall, 2),
        "violations": len(new_viol),
    }
    os.makedirs(os.path.join(OUT, "evidence"), exist_ok=True)
    with open(os.path.join(OUT, "evidence", pid + ".json"), "w") as fh:
        json.dump(ev, fh, indent=1, default=str)
    shutil.rmtree(work, ignore_errors=True)
    try:
        os.rmdir(os.path.join(OUT, ".work"))
    except OSError:
        pass

    for m, hits in known_hits.items():
        print("KNOWN-FINDING: property=%s %s (%d occurrences this run)" % (pid, known[m], len(hits)))
    print("%s tier=%s seed=%d cases=%d results=%d distinct_nontrivial=%d wall=%.1fs" %
          (pid, tier, seed, ncases, len(results), distinct, wall))
    print("observed: " + json.dumps(obs, default=str)[:3000])
    if new_viol:
        for i, v in new_viol[:8]:
            print("  violation case=%d %s" % (i, json.dumps(v, default=str)[:600]))
        for p in replay_paths[:5]:
            print("VIOLATION property=%s replay=%s" % (pid, p))
        return 1
    if harness_errors:
        print("HARNESS-ERROR property=%s %s" % (pid, harness_errors[0]))
        return 3
    if inconclusive:
        print("INCONCLUSIVE property=%s reason=%s" % (pid, "; ".join(inconclusive)[:1500]))
        return 2
    print("HELD property=%s on everything explored" % pid)
    return 0


def _repo_head():
    try:
        h = subprocess.run(["git", "-C", REPO, "rev-parse", "--short", "HEAD"], capture_output=True, text=True).stdout.strip()
        d = subprocess.run(["git", "-C", REPO, "status", "--porcelain", "--untracked-files=no"], capture_output=True,
                           text=True).stdout.strip()
        return h + ("+dirty" if d else "")
    except Exception:
        return "unknown"


def replay_case(pid, mod, path):
    rec = json.load(open(path))
    case = rec["case"]
    env = worker_env()
    work = os.path.join(OUT, ".work", "%s-replay-%d" % (pid, os.getpid()))
    os.makedirs(work, exist_ok=True)
    sp = os.path.join(work, "shard.json")
    with open(sp, "w") as fh:
        json.dump({"tier": rec.get("tier", "quick"), "seed": rec.get("seed", 0), "chunks": [[[0, case]]]}, fh)
    outp = os.path.join(work, "out.jsonl")
    p = subprocess.run([PY, "-m", "vlib.worker", pid, sp, outp], cwd=VERIF, env=env, text=True,
                       stdout=subprocess.PIPE, stderr=subprocess.PIPE)
    rc = 0
    if os.path.exists(outp):
        for line in open(outp):
            r = json.loads(line)
            if r.get("kind") == "reach":
                continue
            if r.get("harness_error"):
                print("HARNESS-ERROR", r["harness_error"])
                rc = 3
                continue
            res = r["result"]
            print(json.dumps(res, indent=1, default=str)[:6000])
            if res.get("violations"):
                print("VIOLATION property=%s replay=%s" % (pid, path))
                rc = 1
    else:
        print("HARNESS-ERROR worker produced nothing: " + p.stderr[-2000:])
        rc = 3
    shutil.rmtree(work, ignore_errors=True)
    return rc
