"""Reference stop rule of C03, shared by checks/c03.py and the ambient monitors (vlib/ambient.py).

lens[k-1] is the Hoelder length of the interval subdivided by trial k (None for k = 1), as recomputed by
vlib.agp_model.audit from the authenticated trial log.  A Solve call is described by
(B, Ts, lim, eps, step): trials already made when it was called, trials made when it returned, itersLimit and eps
in force, and an index for the witness."""
import math

import numpy as np


def ulps(a, b):
    if a == b:
        return 0.0
    if not (math.isfinite(a) and math.isfinite(b)):
        return float("inf")
    return abs(a - b) / np.spacing(max(abs(a), abs(b)))


def cond(lens, k, lim, eps, strict_ulp=2):
    """stop criterion after k trials under limit lim; True / False / None (undecidable within 2 ulp)."""
    if k >= lim:
        return True
    sub = [L for L in lens[1:k] if L is not None]
    if not sub:
        return None if eps > 1.0 else False
    mn = min(sub)
    if mn != eps and ulps(mn, eps) <= strict_ulp:
        return None
    return mn < eps


def judge(lens, solves):
    """-> (violations, obs).  Every Solve is judged with the limit in force and the trials already made when it was called."""
    viol, obs = [], {}
    reason = None
    for (B, Ts, lim, eps, n) in solves:
        if Ts > max(lim, B):
            viol.append({"mech": "budget-exceeded", "evaluations": Ts, "itersLimit": lim, "made_before_this_solve": B, "step": n})
        for k in range(max(B, 1), Ts):
            if cond(lens, k, lim, eps) is True:
                viol.append({"mech": "stopped-late", "msg": "stop criterion already held after %d trials but Solve went on to %d" % (k, Ts),
                             "eps": eps, "itersLimit": lim, "step": n, "min_len": min([L for L in lens[1:k] if L is not None] or [float("inf")])})
                break
        if cond(lens, Ts, lim, eps) is False:
            viol.append({"mech": "stopped-early", "msg": "Solve stopped after %d trials but the stop criterion does not hold" % Ts,
                         "eps": eps, "itersLimit": lim, "step": n, "min_len": min([L for L in lens[1:Ts] if L is not None] or [float("inf")])})
        subs = [L for L in lens[1:Ts] if L is not None]
        reason = "budget" if (Ts >= lim and not (subs and min(subs) < eps)) else "accuracy"
        obs["stop_" + reason] = obs.get("stop_" + reason, 0) + 1
        if B > 0 and Ts > B:
            obs["solves_continuing_earlier_work"] = obs.get("solves_continuing_earlier_work", 0) + 1
    return viol, obs, reason


def accuracy(lens, T, acc):
    """reported accuracy must be the smallest subdivided length (4 ulp); single trial: inf or 1.  -> (violation or None, kind)"""
    sub = [L for L in lens[1:T] if L is not None]
    acc = float(acc)
    if sub:
        exp = min(sub)
        if ulps(acc, exp) > 4:
            return {"mech": "accuracy-mismatch", "reported": acc, "expected": exp, "T": T}, "checked"
        return None, "checked"
    if not (acc == float("inf") or acc == 1.0):
        return {"mech": "accuracy-mismatch", "reported": acc, "expected": "inf (or 1) with a single trial"}, "single"
    return None, "single"
