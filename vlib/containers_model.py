"""Reference model for C19: an ordered set plus max-priority queues with lazy invalidation.

The queue model is a *nondeterministic* specification: wherever the statement leaves a choice
(ties between equal priorities when popping or evicting) the model keeps every admissible
successor state; an observation of the real container prunes the states that cannot explain it
and a violation is reported only when no admissible state remains.
"""
import bisect

MAX_STATES = 256


class Ambiguous(Exception):
    """state set grew beyond MAX_STATES: the history is abandoned as inconclusive (never a violation)"""


class QueueModel:
    def __init__(self, maxlen=None):
        self.maxlen = maxlen
        self.states = {()}          # each state: sorted tuple of (priority, item id)

    def clear(self):
        self.states = {()}

    def _cap(self):
        if len(self.states) > MAX_STATES:
            raise Ambiguous()

    def insert(self, prio, iid):
        new = set()
        for st in self.states:
            lst = sorted(st + ((prio, iid),))
            if self.maxlen is not None and len(lst) > self.maxlen:
                pmin = lst[0][0]
                seen = set()
                for k, e in enumerate(lst):
                    if e[0] != pmin:
                        break
                    if e in seen:
                        continue
                    seen.add(e)
                    new.add(tuple(lst[:k] + lst[k + 1:]))
            else:
                new.add(tuple(lst))
        self.states = new
        self._cap()

    def length(self):
        ls = {len(s) for s in self.states}
        return ls

    def is_empty(self):
        return all(len(s) == 0 for s in self.states)

    def pop_best(self, iid, prio=None):
        """observe that the container returned item iid (and priority prio if visible).  Returns False when
        no admissible state explains the observation."""
        new = set()
        for st in self.states:
            if not st:
                continue
            pm = st[-1][0]
            if prio is not None and prio != pm:
                continue
            if (pm, iid) in st:
                lst = list(st)
                lst.remove((pm, iid))
                new.add(tuple(lst))
        if not new:
            return False
        self.states = new
        return True

    def pop_best_current(self, iid, current, refill):
        """dual-queue variant.  current: dict id -> current characteristic.  refill: callable() -> set of states after
        a refill.  The popped entries are: every entry with priority above the returned one (all stale), the returned
        entry, and possibly stale entries tied with it."""
        new = set()
        for st0 in self.states:
            frontier = [st0]
            seen = set()
            guard = 0
            while frontier:
                st = frontier.pop()
                if st in seen:
                    continue
                seen.add(st)
                guard += 1
                if guard > 4000:
                    raise Ambiguous()
                if not st:
                    for s2 in refill():
                        if s2 and s2 not in seen:
                            frontier.append(s2)
                    continue
                pm = st[-1][0]
                tied = sorted({e for e in st if e[0] == pm})
                for e in tied:
                    lst = list(st)
                    lst.remove(e)
                    rest = tuple(lst)
                    if current.get(e[1]) == e[0]:
                        if e[1] == iid:
                            new.add(rest)
                    else:
                        frontier.append(rest)
        if not new:
            return False
        self.states = new
        self._cap()
        return True


class OrderedModel:
    def __init__(self):
        self.xs = []
        self.ids = []

    def insert(self, x, iid):
        k = bisect.bisect_left(self.xs, x)
        self.xs.insert(k, x)
        self.ids.insert(k, iid)

    def right_of(self, x):
        k = bisect.bisect_right(self.xs, x)
        return self.ids[k] if k < len(self.ids) else None


def _insert_state(st, prio, iid, maxlen):
    """all admissible successor tuples of inserting (prio, iid) into the sorted entry tuple st"""
    lst = sorted(st + ((prio, iid),))
    if maxlen is not None and len(lst) > maxlen:
        pmin = lst[0][0]
        out = set()
        for k, e in enumerate(lst):
            if e[0] != pmin:
                break
            out.add(tuple(lst[:k] + lst[k + 1:]))
        return out
    return {tuple(lst)}


def refill_states(ids, cur, maxlen):
    states = {()}
    for iid in ids:
        new = set()
        for st in states:
            new |= _insert_state(st, cur[iid], iid, maxlen)
        states = new
        if len(states) > MAX_STATES:
            raise Ambiguous()
    return states


class DualQueueModel:
    """Joint nondeterministic model of the global and the local queue of SearchDataDualQueue (a refill triggered
    by either queue refills both, so the two cannot be modelled separately).  state = (global entries, local entries)."""

    def __init__(self, maxlen=None):
        self.maxlen = maxlen
        self.states = {((), ())}

    def _cap(self):
        if len(self.states) > MAX_STATES:
            raise Ambiguous()

    def clear(self):
        self.states = {((), ())}

    def insert(self, which, prio, iid):
        new = set()
        for g, l in self.states:
            if which == 0:
                for g2 in _insert_state(g, prio, iid, self.maxlen):
                    new.add((g2, l))
            else:
                for l2 in _insert_state(l, prio, iid, self.maxlen):
                    new.add((g, l2))
        self.states = new
        self._cap()

    def refill(self, ids, R, RL):
        gs = refill_states(ids, R, self.maxlen)
        ls = refill_states(ids, RL, self.maxlen)
        self.states = {(g, l) for g in gs for l in ls}
        self._cap()

    def pop_best_current(self, which, iid, ids, R, RL):
        cur = R if which == 0 else RL
        new = set()
        refilled = None
        for st0 in self.states:
            frontier = [st0]
            seen = set()
            while frontier:
                st = frontier.pop()
                if st in seen:
                    continue
                seen.add(st)
                if len(seen) > 4000:
                    raise Ambiguous()
                q = st[which]
                if not q:
                    if refilled is None:
                        gs = refill_states(ids, R, self.maxlen)
                        ls = refill_states(ids, RL, self.maxlen)
                        refilled = [(g, l) for g in gs for l in ls]
                        if len(refilled) > MAX_STATES:
                            raise Ambiguous()
                    for s2 in refilled:
                        if s2[which] and s2 not in seen:
                            frontier.append(s2)
                    continue
                pm = q[-1][0]
                for e in sorted({e for e in q if e[0] == pm}):
                    lst = list(q)
                    lst.remove(e)
                    rest = (tuple(lst), st[1]) if which == 0 else (st[0], tuple(lst))
                    if cur.get(e[1]) == e[0]:
                        if e[1] == iid:
                            new.add(rest)
                    else:
                        frontier.append(rest)
        if not new:
            return False
        self.states = new
        self._cap()
        return True

    def pop_best_plain(self, iid, ids, R):
        """SearchData (single queue, no invalidation): refill when empty, then the returned item must own an entry of maximal priority."""
        new = set()
        for g, l in self.states:
            cands = [g] if g else list(refill_states(ids, R, self.maxlen))
            for st in cands:
                if not st:
                    continue
                pm = st[-1][0]
                if (pm, iid) in st:
                    lst = list(st)
                    lst.remove((pm, iid))
                    new.add((tuple(lst), l))
        if not new:
            return False
        self.states = new
        self._cap()
        return True
