"""Ambient monitors: while ACTIVE, every iOpt Solver constructed by ANY code (the shipped example scripts, the
repository's own solving tests) is instrumented at its boundary - the problem is wrapped in a recording proxy, a
recording listener is attached, Solve / DoGlobalIteration calls are noted - and afterwards audited by the same oracles the
checks use on generated scenarios:

  C02 decision rule (agp_model.audit)        C03 stop rule, budget, reported accuracy (stoprule)
  C04 reported optimum (OptimumMonitor)      C05 box membership, refinement post-condition
  C06 search information (SearchInfoMonitor) C20 grid of the configured density

The workload is written by somebody else (the repository's authors); the oracle is ours.  Nothing in the repository is
edited: the wrappers are installed on the imported classes in the worker process and are pass-through when not ACTIVE.
"""
import contextlib
import io
import os
import runpy
import sys
import tempfile
import types

import numpy as np

from vlib import record, agp_model, moments, stoprule

ACTIVE = False
STRIP_LISTENERS = False      # when set, listeners the workload attaches are noted but NOT attached (C13: run without them)
RECORDS = []
_installed = False


class Rec:
    def __init__(self, solver, proxy, listener):
        self.solver = solver
        self.proxy = proxy
        self.listener = listener
        self.steps = []          # dicts: kind, before, after, lim, eps, sol (Solve only)
        self.user_listeners = []


def install():
    global _installed
    if _installed:
        return
    from iOpt.solver import Solver
    record.install_phase_wrappers()
    o_init, o_solve, o_iter, o_add = Solver.__init__, Solver.Solve, Solver.DoGlobalIteration, Solver.AddListener

    def __init__(self, problem, *a, **k):
        if not ACTIVE:
            return o_init(self, problem, *a, **k)
        proxy = record.ProxyProblem(problem)
        o_init(self, proxy, *a, **k)
        lst = record.RecordingListener()
        o_add(self, lst)
        self._ambient = Rec(self, proxy, lst)
        RECORDS.append(self._ambient)

    def Solve(self):
        rec = getattr(self, "_ambient", None)
        if rec is None or not ACTIVE:
            return o_solve(self)
        before = rec.proxy.ng
        lim, eps = self.parameters.itersLimit, self.parameters.eps
        sol = o_solve(self)
        rec.steps.append({"kind": "solve", "before": before, "after": rec.proxy.ng, "lim": lim, "eps": eps, "sol": sol,
                          "snap": record.snap_solution(sol), "refine": bool(self.parameters.refineSolution)})
        return sol

    def DoGlobalIteration(self, number=1):
        rec = getattr(self, "_ambient", None)
        if rec is None or not ACTIVE:
            return o_iter(self, number)
        before = rec.proxy.ng
        r = o_iter(self, number)
        rec.steps.append({"kind": "iter", "n": number, "before": before, "after": rec.proxy.ng})
        return r

    def AddListener(self, listener):
        rec = getattr(self, "_ambient", None)
        if rec is not None:
            rec.user_listeners.append(type(listener).__name__)
            if STRIP_LISTENERS and ACTIVE:
                return None
        return o_add(self, listener)

    Solver.__init__, Solver.Solve, Solver.DoGlobalIteration, Solver.AddListener = __init__, Solve, DoGlobalIteration, AddListener
    _installed = True


@contextlib.contextmanager
def active():
    global ACTIVE
    install()
    del RECORDS[:]
    del record.PHASE[:]
    ACTIVE = True
    try:
        yield RECORDS
    finally:
        ACTIVE = False


def run_script(path, argv=None):
    """Run a Python script as __main__ under the ambient monitors (cwd = a scratch directory, stdout captured,
    matplotlib figures closed afterwards).  -> (records, stdout, exception or None)"""
    out = io.StringIO()
    err = None
    cwd = os.getcwd()
    tmp = tempfile.mkdtemp(prefix="ambient_")
    old_argv = sys.argv
    recs = []
    try:
        os.chdir(tmp)
        sys.argv = [path] + list(argv or [])
        with active() as R, contextlib.redirect_stdout(out):
            try:
                runpy.run_path(path, run_name="__main__")
            except SystemExit:
                pass
            except Exception as e:          # the script itself failed: reported by the caller, not a verdict of a monitor
                import traceback
                err = traceback.format_exc()[-2000:]
            recs = list(R)
    finally:
        sys.argv = old_argv
        os.chdir(cwd)
        try:
            import matplotlib.pyplot as plt
            plt.close("all")
        except Exception:
            pass
        import shutil
        shutil.rmtree(tmp, ignore_errors=True)
    return recs, out.getvalue(), err


def run_unittest(module_path, pattern=None):
    """Run the unittest TestCases of one test module of the repository under the ambient monitors."""
    import importlib.util
    import unittest
    out = io.StringIO()
    spec = importlib.util.spec_from_file_location("ambient_" + os.path.basename(module_path)[:-3], module_path)
    mod = importlib.util.module_from_spec(spec)
    cwd = os.getcwd()
    tmp = tempfile.mkdtemp(prefix="ambient_")
    recs = []
    res = None
    try:
        os.chdir(tmp)
        with active() as R, contextlib.redirect_stdout(out), contextlib.redirect_stderr(io.StringIO()):
            spec.loader.exec_module(mod)
            suite = unittest.defaultTestLoader.loadTestsFromModule(mod)
            if pattern:
                keep = [t for s_ in suite for t in s_ if pattern in t.id()]
                if pattern == "_Solve":
                    keep = [t for t in keep if "100_GKLS" not in t.id() and "GKLS_4D" not in t.id()]
                suite = unittest.TestSuite(keep)
            res = unittest.TextTestRunner(stream=io.StringIO(), verbosity=0).run(suite)
            recs = list(R)
    finally:
        os.chdir(cwd)
        import shutil
        shutil.rmtree(tmp, ignore_errors=True)
    return recs, out.getvalue(), res


def audit(rec, want=("C02", "C03", "C04", "C05", "C06", "C20")):
    """-> (violations by property id, obs)"""
    out = {p: [] for p in want}
    obs = {"solvers_audited": 1}
    prob, solver = rec.proxy, rec.solver
    par = solver.parameters
    N = int(prob.numberOfFloatVariables)
    lo = np.array(prob.lowerBoundOfFloatVariables, dtype=float)
    hi = np.array(prob.upperBoundOfFloatVariables, dtype=float)
    glog = [e for e in prob.log if e["ph"] == "g" and e["exc"] is None]
    llog = [e for e in prob.log if e["ph"] == "l" and e["exc"] is None]
    plog = [e for e in prob.log if e["ph"] == "p"]
    T = len(glog)
    obs["trials"] = T
    obs["local_evals"] = len(llog)
    obs["probe_calls"] = len(plog)
    obs["dims"] = [N]
    if rec.user_listeners:
        obs["with_user_listeners"] = 1
        obs["listener_kinds"] = sorted(set(rec.user_listeners))
    if T == 0:
        obs["never_run"] = 1
        return out, obs
    single = int(getattr(prob, "numberOfConstraints", 0) or 0) == 0 and int(getattr(prob, "numberOfObjectives", 1)) == 1
    degenerate = record.partition_degenerate(solver)
    final = record.snap_solution(solver.GetResults())
    refined = bool(llog)

    def add(p, v):
        if p in out and len(out[p]) < 6:
            out[p].append(v)

    # ---- C05
    for e in glog + llog:
        if not record.inside_box(e["y"], lo, hi):
            add("C05", {"mech": "evaluation-outside-box", "phase": e["ph"], "point": e["y"].tolist(), "lower": lo.tolist(), "upper": hi.tolist()})
            break
    if final["y"] is not None and not record.inside_box(final["y"], lo, hi):
        add("C05", {"mech": "result-outside-box", "point": final["y"].tolist()})
    if refined and final["v"] is not None:
        vmin = min(float(e["v"]) for e in glog)
        if float(final["v"]) > vmin:
            add("C05", {"mech": "refinement-worsened", "reported": float(final["v"]), "best_global": vmin})
        if not record.same_value(prob.f(final["y"]), final["v"]):
            add("C05", {"mech": "refined-value-not-objective-at-point", "reported": float(final["v"]), "recomputed": float(prob.f(final["y"]))})
        obs["refined_solvers"] = 1
    obs["box_points_checked"] = len(glog) + len(llog)

    # ---- C20
    if N >= 2 and "C20" in out:
        m = int(par.evolventDensity)
        side = hi - lo
        tol = np.maximum(1e-6, 8.0 * np.spacing(np.maximum(np.abs(lo), np.abs(hi))) / side * (2.0 ** m))
        for e in glog:
            q = (e["y"] - lo) / side * (2.0 ** m) - 0.5
            j = np.rint(q)
            if np.any(np.abs(q - j) > tol) or np.any(j < 0) or np.any(j >= 2 ** m):
                add("C20", {"mech": "trial-off-configured-grid", "m": m, "point": e["y"].tolist(), "grid_coordinate": q.tolist()})
                break
        obs["grid_points_checked"] = len(glog)

    if not single or degenerate:
        obs["constrained_or_degenerate"] = 1
        return out, obs

    # ---- authenticated trial sequence
    t = types.SimpleNamespace(log=prob.log, listener=rec.listener)
    xs, zs, problems = record.trial_sequence(t)
    for p_ in problems[:2]:
        add("C02", {"mech": "trial-authentication", "msg": p_})
        add("C06", {"mech": "trial-authentication", "msg": p_})
    a = agp_model.audit(xs, zs, N, float(par.r))
    for v in a["violations"]:
        add("C02", dict(v, mech="decision-rule:" + v["kind"]))
    for k, v in a["events"].items():
        obs["c02_" + k] = v
    lens = a["lengths"]

    # ---- C03
    usable = len(lens) == T and not any(v["kind"] in ("duplicate-coordinate", "outside-unit-interval") for v in a["violations"])
    sol_now = solver.GetResults()
    if sol_now.numberOfGlobalTrials != T:
        add("C03", {"mech": "trial-count-mismatch", "reported": sol_now.numberOfGlobalTrials, "evaluations": T})
    if usable:
        solves = [(s["before"], s["after"], s["lim"], s["eps"], n) for n, s in enumerate(rec.steps) if s["kind"] == "solve"]
        v2, o2, reason = stoprule.judge(lens, solves)
        for v in v2:
            add("C03", v)
        for k, v in o2.items():
            obs["c03_" + k] = v
        av, kind = stoprule.accuracy(lens, T, sol_now.solutionAccuracy)
        if av:
            add("C03", av)
        obs["c03_solves_judged"] = len(solves)

    # ---- C04: inside every OnEndIteration callback and at the end
    om = moments.OptimumMonitor(prob)
    first_local = min([e["i"] for e in prob.log if e["ph"] == "l"] or [10 ** 12])
    k = 0
    nev = 0
    for ev in rec.listener.events:
        if ev["cb"] == "iter":
            k += len(ev["items"])
            nev += 1
            if nev > 300 and nev % 25:
                continue                 # long runs: every callback of the first 300, then every 25th
            if k <= len(glog) and glog[k - 1]["i"] < first_local:
                om.check(ev["sol"], "callback:iter", completed=glog[:k])
        elif ev["cb"] == "stop" and not refined:
            om.check(ev["sol"], "callback:stop", completed=glog[:k])
    om.check_any(final, "final-GetResults")
    for s in rec.steps:
        if s["kind"] == "solve" and s is rec.steps[-1]:
            om.check_any(record.snap_solution(s["sol"]), "returned-solution")
    for v in om.viol:
        add("C04", v)
    obs["c04_moments"] = sum(om.moments.values())

    # ---- C06 (search information of the global phase; refinement rewrites the optimum in place)
    if not refined and "C06" in out:
        sm = moments.SearchInfoMonitor(prob, solver, N, lo, hi, int(par.evolventDensity))
        sm.check("after-run")
        for v in sm.viol:
            add("C06", v)
        obs["c06_items_checked"] = sm.items_checked
    return out, obs


# scripts of the repository that run offline (relative to the repository root); seconds measured under the monitors
LIGHT_EXAMPLES = [
    "examples/Hill_example.py", "examples/Shekel_example.py", "examples/Rastrigin_example.py", "examples/GKLS_example.py",
    "examples/console_output/example_custom_output.py", "examples/console_output/example_full_output.py",
    "examples/dynamic_painters/1D_examples/example_1D_with_objective_function.py",
    "examples/static_painters/1D_examples/example_1D_with_interpolation.py",
    "examples/static_painters/1D_examples/example_1D_with_only_points.py",
    "examples/static_painters/1D_examples/example_1D_with_objective_function_pointsInBottom_mode.py",
    "examples/static_painters/2D_examples/example_2D_with_level_lines.py",
]
HEAVY_EXAMPLES = [
    "examples/Shekel4_example.py",                                   # 10 000 trials in 4-D
    "examples/console_output/example_only_result_output.py",
    "examples/static_painters/2D_examples/example_2D_with_1-dimension_section.py",
    "examples/static_painters/1D_examples/example_1D_with_approximation.py",
    "examples/static_painters/2D_examples/example_2D_with_interpolation.py",
    "examples/static_painters/2D_examples/example_2D_with_level_lines_by_interpolation.py",
    "examples/dynamic_painters/2D_examples/example_2D_with_level_lines.py",
]
# (module, substring filter on the test id or None)
LIGHT_TESTS = [("test/iOpt/test_solver.py", None), ("test/test_solving_test_problems.py", "_Solve")]
HEAVY_TESTS = [("test/test_solving_test_problems.py", "test_Solve_100_GKLS_2D_problem")]


def ambient_cases(tier):
    cs = [{"ambient": "script", "path": p} for p in LIGHT_EXAMPLES]
    cs += [{"ambient": "unittest", "path": p, "filter": f} for p, f in LIGHT_TESTS]
    if tier == "thorough":
        cs += [{"ambient": "script", "path": p} for p in HEAVY_EXAMPLES]
        cs += [{"ambient": "unittest", "path": p, "filter": f} for p, f in HEAVY_TESTS]
    return cs


def run_ambient_case(c, pid):
    """Executes one ambient case and audits every solver it constructed for property `pid`."""
    repo = os.environ.get("IOPT_REPO", "/repo")
    path = os.path.join(repo, c["path"])
    if not os.path.exists(path):
        return {"violations": [], "obs": {"ambient_missing_scripts": 1}, "skip": "ambient-script-missing"}
    if c["ambient"] == "script":
        recs, stdout, err = run_script(path)
        failed = err
    else:
        recs, stdout, res = run_unittest(path, c.get("filter"))
        failed = None
    viol = []
    obs = {"ambient_workloads": 1, "ambient_kinds": [c["path"]]}
    if failed:
        obs["ambient_script_failed"] = 1
        obs["ambient_failures"] = [c["path"] + ": " + failed.strip().splitlines()[-1][:200]]
    keys = []
    for n, rec in enumerate(recs):
        out, o = audit(rec, want=(pid,))
        for v in out.get(pid, []):
            if len(viol) < 6:
                viol.append(dict(v, workload=c["path"], solver_index=n, mech="ambient:" + str(v.get("mech"))))
        for k, v in o.items():
            kk = "ambient_" + k
            if isinstance(v, list):
                obs[kk] = sorted(set(obs.get(kk, [])) | set(v))
            elif k.startswith("max_"):
                obs[kk] = max(obs.get(kk, v), v)
            else:
                obs[kk] = obs.get(kk, 0) + v
        keys.append("ambient|%s|%d|%d" % (c["path"], n, o.get("trials", 0)))
    return {"violations": viol, "obs": obs, "nontrivial": bool(recs), "keys": keys,
            "sample": {"kind": "ambient", "workload": c["path"], "solvers": len(recs),
                       "trials": obs.get("ambient_trials", 0)} if recs else None}


def compare_with_and_without_listeners(c):
    """C13 on an authored workload: the script is executed twice, once as written and once with every listener it attaches
    left out; every solver's trial log (global and local phase) and final result must be identical."""
    global STRIP_LISTENERS
    repo = os.environ.get("IOPT_REPO", "/repo")
    path = os.path.join(repo, c["path"])
    if not os.path.exists(path):
        return {"violations": [], "obs": {"ambient_missing_scripts": 1}, "skip": "ambient-script-missing"}
    run = (lambda: run_script(path)) if c["ambient"] == "script" else (lambda: run_unittest(path, c.get("filter")))
    recs1, out1, err1 = run()
    STRIP_LISTENERS = True
    try:
        recs2, out2, err2 = run()
    finally:
        STRIP_LISTENERS = False
    viol = []
    obs = {"ambient_workloads": 1, "ambient_kinds": [c["path"]], "ambient_solvers_compared": 0}
    if isinstance(err1, str) and err1:
        # a shipped listener made the script raise?  only a finding if the run without listeners did not raise
        if not (isinstance(err2, str) and err2):
            viol.append({"mech": "ambient:listener-makes-api-raise", "workload": c["path"], "traceback": err1[-1500:]})
        else:
            obs["ambient_script_failed"] = 1
    if len(recs1) != len(recs2):
        viol.append({"mech": "ambient:listeners-change-number-of-solvers", "workload": c["path"], "with": len(recs1), "without": len(recs2)})
    keys = []
    for n, (a, b) in enumerate(zip(recs1, recs2)):
        la = [e for e in a.proxy.log if e["ph"] in ("g", "l")]
        lb = [e for e in b.proxy.log if e["ph"] in ("g", "l")]
        obs["ambient_solvers_compared"] += 1
        obs["ambient_trials"] = obs.get("ambient_trials", 0) + len(la)
        obs["ambient_probe_calls"] = obs.get("ambient_probe_calls", 0) + len([e for e in a.proxy.log if e["ph"] == "p"])
        if a.user_listeners:
            obs["ambient_with_user_listeners"] = obs.get("ambient_with_user_listeners", 0) + 1
            obs["ambient_listener_kinds"] = sorted(set(obs.get("ambient_listener_kinds", [])) | set(a.user_listeners))
        same = len(la) == len(lb) and all(x["ph"] == y["ph"] and np.array_equal(x["y"], y["y"]) and record.same_value(x["v"], y["v"]) for x, y in zip(la, lb))
        if not same and len(viol) < 6:
            k = next((i for i, (x, y) in enumerate(zip(la, lb)) if x["ph"] != y["ph"] or not np.array_equal(x["y"], y["y"])), min(len(la), len(lb)))
            viol.append({"mech": "ambient:listener-changes-trial-sequence", "workload": c["path"], "solver_index": n, "with": len(la), "without": len(lb),
                         "first_diff": k, "listeners": a.user_listeners})
        fa, fb = record.snap_solution(a.solver.GetResults()), record.snap_solution(b.solver.GetResults())
        eq = ((fa["y"] is None) == (fb["y"] is None)) and (fa["y"] is None or np.array_equal(fa["y"], fb["y"])) and \
            (record.same_value(fa["v"], fb["v"]) or (fa["v"] is None and fb["v"] is None)) and fa["nG"] == fb["nG"] and fa["nL"] == fb["nL"]
        if not eq and len(viol) < 6:
            viol.append({"mech": "ambient:listener-changes-result", "workload": c["path"], "solver_index": n, "listeners": a.user_listeners,
                         "with": [None if fa["y"] is None else fa["y"].tolist(), fa["v"], fa["nG"], fa["nL"]],
                         "without": [None if fb["y"] is None else fb["y"].tolist(), fb["v"], fb["nG"], fb["nL"]]})
        keys.append("ambient|%s|%d|%d" % (c["path"], n, len(la)))
    return {"violations": viol, "obs": obs, "nontrivial": bool(recs1), "keys": keys,
            "sample": {"kind": "ambient with/without listeners", "workload": c["path"], "solvers": len(recs1)} if recs1 else None}
