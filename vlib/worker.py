"""Worker process: runs the cases of one shard against the code in $IOPT_REPO.

usage: python -m vlib.worker <PID> <shard.json> <out.jsonl>
"""
import faulthandler
import importlib
import json
import os
import signal
import sys
import time
import traceback

faulthandler.enable()

_WATCHDOG = {"fired": False}


class CaseWatchdog(BaseException):
    """raised by SIGALRM when one case exceeds its wall-clock allowance: the case is INCONCLUSIVE, whatever it returns"""


def _on_alarm(signum, frame):
    _WATCHDOG["fired"] = True
    raise CaseWatchdog()


def classify_exception(tb_list, repo):
    """API exception (some frame inside the repository under test) -> violation witness;
    only /verif frames -> harness error."""
    for fr in tb_list:
        fn = os.path.abspath(fr.filename)
        if fn.startswith(os.path.join(repo, "iOpt")):
            return "api"
    return "harness"


def main():
    pid, shard_path, out_path = sys.argv[1:4]
    repo = os.environ.get("IOPT_REPO", "/repo")
    import iOpt
    iopt_file = os.path.abspath(iOpt.__file__)
    if not iopt_file.startswith(os.path.abspath(repo) + os.sep):
        sys.stderr.write("iOpt imported from %s, expected under %s\n" % (iopt_file, repo))
        sys.exit(4)
    mod = importlib.import_module("checks." + pid.lower())
    shard = json.load(open(shard_path))
    from vlib import reach
    sample_reach = getattr(mod, "REACH_SAMPLE", 10)
    wdir = os.path.dirname(shard_path)

    def claimed():
        for c, chunk in enumerate(shard["chunks"]):
            try:
                fd = os.open(os.path.join(wdir, "claim%05d" % c), os.O_CREAT | os.O_EXCL | os.O_WRONLY)
                os.close(fd)
            except FileExistsError:
                continue
            for index, case in chunk:
                yield index, case

    with open(out_path, "w") as out:
        for n, (index, case) in enumerate(claimed()):
            use_reach = sample_reach and (index % sample_reach == 0)
            if use_reach:
                reach.start(repo)
            t0 = time.time()
            _WATCHDOG["fired"] = False
            signal.signal(signal.SIGALRM, _on_alarm)
            # generous wall-clock watchdog (a verdict is never derived from it); ambient workloads replay whole example scripts
            signal.alarm(1800 if isinstance(case, dict) and "ambient" in case else int(getattr(mod, "CASE_TIMEOUT", 900)))
            try:
                res = mod.run_case(case)
                signal.alarm(0)
                rec = {"index": index, "result": res, "wall": round(time.time() - t0, 3)}
                if _WATCHDOG["fired"]:
                    # the alarm went off inside the code under test (Solve swallows BaseException): never a verdict
                    rec = {"index": index, "wall": round(time.time() - t0, 3),
                           "result": {"violations": [], "obs": {"case_watchdog_fired": 1}, "skip": "case-watchdog",
                                      "inconclusive": "case watchdog fired after %ds" % int(time.time() - t0)}}
            except CaseWatchdog:
                signal.alarm(0)
                rec = {"index": index, "wall": round(time.time() - t0, 3),
                       "result": {"violations": [], "obs": {"case_watchdog_fired": 1}, "skip": "case-watchdog",
                                  "inconclusive": "case watchdog fired after %ds" % int(time.time() - t0)}}
            except BaseException as e:  # noqa  (an injected KeyboardInterrupt/SystemExit escaping the API must not kill the worker)
                signal.alarm(0)
                fp_exhausted = type(e).__name__ == "FpDomainExhausted"
                tb = traceback.extract_tb(e.__traceback__)
                txt = "".join(traceback.format_exception(type(e), e, e.__traceback__))
                if fp_exhausted:
                    rec = {"index": index, "wall": round(time.time() - t0, 3),
                           "result": {"violations": [], "obs": {"fp_domain_exhausted": 1}, "skip": "fp-domain-exhausted"}}
                elif classify_exception(tb, repo) == "api":
                    rec = {"index": index, "wall": round(time.time() - t0, 3), "result": {
                        "violations": [{"mech": "api-exception:" + type(e).__name__,
                                        "msg": "exception escaped a public API call in a fault-free scenario",
                                        "traceback": txt[-3000:]}],
                        "obs": {"api_exceptions": 1}}}
                else:
                    rec = {"index": index, "harness_error": txt[-3000:]}
            finally:
                if use_reach:
                    reach.stop()
            out.write(json.dumps(rec, default=_default) + "\n")
            out.flush()
        tbl = reach.table()
        if tbl:
            out.write(json.dumps({"kind": "reach", "table": tbl}) + "\n")


def _default(o):
    try:
        import numpy as np
        if isinstance(o, np.generic):
            return o.item()
        if isinstance(o, np.ndarray):
            return o.tolist()
    except Exception:
        pass
    return str(o)


if __name__ == "__main__":
    main()
