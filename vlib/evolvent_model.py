"""Independent cell arithmetic for the evolvent monitors (C07-C09, C17).

Nothing here re-implements the curve: the oracles are structural (an image is a cell centre, distinct
subintervals give distinct cells, consecutive cells are face-adjacent, finer cells nest in coarser
ones, the inverse image of a point is the subinterval whose cell contains it).  All structural checks
run on the unit box [0,1]^N, where every quantity is a dyadic rational and comparisons are exact.
"""
import base64
import zlib

import numpy as np

from iOpt.evolvent.evolvent import Evolvent


def unit_evolvent(N, m, rebound=None):
    """The evolvent on the unit box.  With rebound = a numpy Generator the object first lives on another box, answers a few
    image and inverse-image queries there and is then moved to the unit box with SetBounds ("for every box" also means the box
    in force now): the structural checks of C07/C08 must hold on such an object exactly as on a fresh one."""
    if rebound is None:
        return Evolvent(np.zeros(N), np.ones(N), N, m)
    lo = rebound.uniform(-50, 50, N)
    hi = lo + 10 ** rebound.uniform(-2, 2, N)
    ev = Evolvent(lo, hi, N, m)
    for q in range(3):
        ev.GetImage(float(rebound.random()))
        ev.GetInverseImage(lo + rebound.random(N) * (hi - lo))
    ev.SetBounds(np.zeros(N), np.ones(N))
    return ev


def cell_of_unit_image(y, m):
    """y: image on the unit box.  Returns (integer cell vector, exact?) where exact means y is
    exactly the centre (j+1/2)/2^m of cell j."""
    q = np.asarray(y, dtype=float) * float(2 ** m) - 0.5
    j = np.rint(q)
    exact = bool(np.all(q == j) and np.all(j >= 0) and np.all(j < 2 ** m))
    return j.astype(np.int64), exact


def linear_index(j, m):
    idx = 0
    for i, v in enumerate(j):
        idx += int(v) << (m * i)
    return idx


def pack_bitmap(bits):
    return base64.b64encode(zlib.compress(np.packbits(bits).tobytes(), 1)).decode()


def unpack_bitmap(s, n):
    raw = np.frombuffer(zlib.decompress(base64.b64decode(s)), dtype=np.uint8)
    return np.unpackbits(raw)[:n]


def probes(i, n, rng):
    """Three probes of subinterval i of n: left end, random interior point, last double before the right end."""
    left = i / n
    right = (i + 1) / n
    last = float(np.nextafter(right, 0.0))
    mid = (i + float(rng.random())) / n
    if not (left <= mid < right):
        mid = left
    return [left, mid, last]


def window_starts(N, m, W, rng, extra_random=4):
    """Start indices of windows of W consecutive subintervals: start, end, around every digit-carry
    position k*2^(N*j), and random positions."""
    n = 1 << (N * m)
    if n <= W:
        return [0]
    s = {0, n - W}
    for j in range(1, m):
        blk = 1 << (N * j)                 # subintervals per level-(m-j) cell
        nb = n // blk
        ks = {1, nb - 1, nb // 2}
        for _ in range(2):
            ks.add(int(rng.integers(1, nb)))
        for k in ks:
            if 0 < k < nb:
                s.add(min(max(k * blk - W // 2, 0), n - W))
    for _ in range(extra_random):
        s.add(int(rng.integers(0, n - W + 1)))
    return sorted(s)
