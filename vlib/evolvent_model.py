"""Independent cell arithmetic for the evolvent monitors (C07-C09, C17).

Nothing here re-implements the curve: the oracles are structural (an image is a cell centre, distinct
subintervals give distinct cells, consecutive cells are face-adjacent, finer cells nest in coarser
ones, the inverse image of a point is the subinterval whose cell contains it).  All structural checks
run on the unit box [0,1]^N, where every quantity is a dyadic rational and comparisons are exact.
"""
import base64
import zlib

import numpy as np

from iOpt.evolvent.evolvent import Evolvent


def unit_evolvent(N, m, rebound=None):
    """The evolvent on the unit box.  With rebound = a numpy Generator the object first lives on another box, answers a few
    image and inverse-image queries there and is then moved to the unit box with SetBounds ("for every box" also means the box
    in force now): the structural checks of C07/C08 must hold on such an object exactly as on a fresh one."""
    if rebound is None:
        return Evolvent(np.zeros(N), np.ones(N), N, m)
    lo = rebound.uniform(-50, 50, N)
    hi = lo + 10 ** rebound.uniform(-2, 2, N)
    ev = Evolvent(lo, hi, N, m)
    for q in range(3):
        ev.GetImage(float(rebound.random()))
        ev.GetInverseImage(lo + rebound.random(N) * (hi - lo))
    ev.SetBounds(np.zeros(N), np.ones(N))
    return ev


_KEEP = []          # solvers built by solver_evolvent stay alive for the rest of the worker process (as they would in a user's program)


def solver_evolvent(lower, upper, N, m, rng, obs, iterate=True, reassign=False):
    """The Evolvent that a Solver builds for a problem with this box and SolverParameters(evolventDensity=m) with eps, r,
    itersLimit and refineSolution drawn at random: users of the optimiser reach the curve through the public Solver.evolvent,
    and every evolvent property is stated for the configured (N, m, box).  A second Solver with the same N and m over ANOTHER
    box is built (and stepped) afterwards and both stay alive; the first Solver is stepped a little as well when iterate."""
    import contextlib
    import io
    from iOpt.problem import Problem
    from iOpt.solver import Solver
    from iOpt.solver_parametrs import SolverParameters

    class _P(Problem):
        def __init__(self, lo, hi, as_list):
            super().__init__()
            self.numberOfFloatVariables = N
            self.dimension = N
            self.numberOfObjectives = 1
            self.numberOfConstraints = 0
            self.floatVariableNames = np.array(["x%d" % i for i in range(N)], dtype=str)
            self.lowerBoundOfFloatVariables = list(lo) if as_list else np.array(lo, dtype=np.double)
            self.upperBoundOfFloatVariables = list(hi) if as_list else np.array(hi, dtype=np.double)
            self._lo = np.array(lo, dtype=float)
            self._side = np.array(hi, dtype=float) - self._lo

        def Calculate(self, point, functionValue):
            u = (np.asarray(point.floatVariables, dtype=float) - self._lo) / self._side
            functionValue.value = float(np.sum((u - 0.3) ** 2))
            return functionValue

    def params():
        return SolverParameters(eps=float(10 ** rng.uniform(-7, -0.5)), r=float(rng.uniform(1.1, 5.0)),
                                itersLimit=int(rng.integers(1, 500)), evolventDensity=m, refineSolution=bool(rng.random() < 0.3))

    lo = np.array(lower, dtype=float)
    hi = np.array(upper, dtype=float)
    a = Solver(_P(lo, hi, bool(rng.random() < 0.4)), parameters=params())
    if reassign:
        # the user gives the problem object other bound arrays after the Solver was built and then lets the Solver work: whichever
        # box the Solver's evolvent is on afterwards, it must be ONE box for both directions of the map
        nlo = lo + (hi - lo) * rng.uniform(0.05, 0.4, N)
        nhi = hi - (hi - lo) * rng.uniform(0.05, 0.4, N)
        a.problem.lowerBoundOfFloatVariables = np.array(nlo, dtype=np.double)
        a.problem.upperBoundOfFloatVariables = np.array(nhi, dtype=np.double)
        with contextlib.redirect_stdout(io.StringIO()):
            try:
                a.DoGlobalIteration(int(rng.integers(1, 5)))
            except Exception:
                obs["solver_evolvent_iteration_raised"] = obs.get("solver_evolvent_iteration_raised", 0) + 1
        obs["solver_evolvents_after_the_problem_got_other_bounds"] = obs.get("solver_evolvents_after_the_problem_got_other_bounds", 0) + 1
    olo = lo + (hi - lo) * rng.uniform(-3, 3, N) + rng.uniform(-5, 5, N)
    ohi = olo + (hi - lo) * 10 ** rng.uniform(-1, 1, N) + 10 ** rng.uniform(-3, 1, N)
    b = Solver(_P(olo, ohi, bool(rng.random() < 0.4)), parameters=params())
    with contextlib.redirect_stdout(io.StringIO()):
        try:
            b.DoGlobalIteration(int(rng.integers(1, 6)))
            if iterate and rng.random() < 0.5:
                a.DoGlobalIteration(int(rng.integers(1, 4)))
                obs["solver_evolvents_used_by_their_solver_first"] = obs.get("solver_evolvents_used_by_their_solver_first", 0) + 1
        except Exception as e:      # the method's floating-point guard on extreme boxes is not this monitor's business
            obs["solver_evolvent_iteration_raised"] = obs.get("solver_evolvent_iteration_raised", 0) + 1
    _KEEP.append((a, b))
    if len(_KEEP) > 64:
        del _KEEP[0]
    obs["evolvents_built_by_a_solver"] = obs.get("evolvents_built_by_a_solver", 0) + 1
    return a.evolvent


def cell_of_unit_image(y, m):
    """y: image on the unit box.  Returns (integer cell vector, exact?) where exact means y is
    exactly the centre (j+1/2)/2^m of cell j."""
    q = np.asarray(y, dtype=float) * float(2 ** m) - 0.5
    j = np.rint(q)
    exact = bool(np.all(q == j) and np.all(j >= 0) and np.all(j < 2 ** m))
    return j.astype(np.int64), exact


def linear_index(j, m):
    idx = 0
    for i, v in enumerate(j):
        idx += int(v) << (m * i)
    return idx


def pack_bitmap(bits):
    return base64.b64encode(zlib.compress(np.packbits(bits).tobytes(), 1)).decode()


def unpack_bitmap(s, n):
    raw = np.frombuffer(zlib.decompress(base64.b64decode(s)), dtype=np.uint8)
    return np.unpackbits(raw)[:n]


def probes(i, n, rng):
    """Three probes of subinterval i of n: left end, random interior point, last double before the right end."""
    left = i / n
    right = (i + 1) / n
    last = float(np.nextafter(right, 0.0))
    mid = (i + float(rng.random())) / n
    if not (left <= mid < right):
        mid = left
    return [left, mid, last]


def window_starts(N, m, W, rng, extra_random=4):
    """Start indices of windows of W consecutive subintervals: start, end, around every digit-carry
    position k*2^(N*j), and random positions."""
    n = 1 << (N * m)
    if n <= W:
        return [0]
    s = {0, n - W}
    for j in range(1, m):
        blk = 1 << (N * j)                 # subintervals per level-(m-j) cell
        nb = n // blk
        ks = {1, nb - 1, nb // 2}
        for _ in range(2):
            ks.add(int(rng.integers(1, nb)))
        for k in ks:
            if 0 < k < nb:
                s.add(min(max(k * blk - W // 2, 0), n - W))
    for _ in range(extra_random):
        s.add(int(rng.integers(0, n - W + 1)))
    return sorted(s)
