"""Seeded generators of scenarios: objective families on the unit cube, boxes, parameters.

Every scenario is a JSON-serialisable dict so that it can be written into a replay file and
re-executed exactly.  Objectives are pure functions G(u), u in [0,1]^N; the problem evaluates
f(y) = G((y-lower)/side), so the Lipschitz constant "on the box normalised to unit side" is
the Lipschitz constant of G.
"""
import hashlib
import math

import numpy as np


def rng_for(seed, pid, index, salt=""):
    h = hashlib.sha256(("%s|%s|%s|%s" % (seed, pid, index, salt)).encode()).digest()
    return np.random.default_rng(int.from_bytes(h[:8], "little"))


def fl(a):
    return [float(v) for v in a]


# --------------------------------------------------------------------------- boxes
def gen_box(rng, N, kind=None):
    kinds = ["unit", "float", "float", "int", "tiny", "mixed", "neg", "special", "far"]
    kind = kind or kinds[int(rng.integers(len(kinds)))]
    if kind == "unit":
        lo, hi = [0.0] * N, [1.0] * N
    elif kind == "special":
        # boxes on which the affine cube-to-box map degenerates (identity, pure shift, pure scaling), per axis or throughout
        sp = [(-0.5, 0.5), (0.0, 1.0), (-1.0, 1.0), (0.0, 0.5), (-0.5, 0.0), (-0.25, 0.75), (1.0, 2.0), (0.0, 2.0)]
        if rng.random() < 0.5:
            a = sp[int(rng.integers(3))]
            lo, hi = [a[0]] * N, [a[1]] * N
        else:
            pick = [sp[int(rng.integers(len(sp)))] for _ in range(N)]
            lo, hi = [a[0] for a in pick], [a[1] for a in pick]
    elif kind == "far":
        # side small relative to the offset (|lower|/side up to 1e6, the limit stated in DESIGN.md section 4) or absolutely small
        v = rng.random()
        if v < 0.25:
            # a narrow window at a huge offset (a time stamp, a frequency): |lower|/side up to 1e10, still ~1e5 doubles across the side
            side = 10 ** rng.uniform(-2, 1, N)
            lo = fl(side * 10 ** rng.uniform(6, 10, N) * rng.choice([-1.0, 1.0], N))
            hi = [l + float(s) for l, s in zip(lo, side)]
        elif v < 0.7:
            side = 10 ** rng.uniform(-3, 1, N)
            lo = fl(side * 10 ** rng.uniform(3, 6, N) * rng.choice([-1.0, 1.0], N))
            hi = [l + float(s) for l, s in zip(lo, side)]
        else:
            side = 10 ** rng.uniform(-9, -5, N)
            lo = fl(side * rng.uniform(-3, 3, N))
            hi = [l + float(s) for l, s in zip(lo, side)]
    elif kind == "int":
        lo = [int(v) for v in rng.integers(-20, 20, N)]
        hi = [int(l + s) for l, s in zip(lo, rng.integers(1, 30, N))]
    elif kind == "tiny":
        lo = fl(rng.uniform(-1e3, 1e3, N))
        hi = [l + float(s) for l, s in zip(lo, 10 ** rng.uniform(-3, -1, N))]
    elif kind == "neg":
        hi = fl(-10 ** rng.uniform(-2, 3, N))
        lo = [h - float(s) for h, s in zip(hi, 10 ** rng.uniform(-2, 3, N))]
    elif kind == "mixed":
        lo = fl(rng.uniform(-1e3, 1e3, N))
        sides = 10 ** rng.uniform(-3, 3, N)
        if N > 1 and rng.random() < 0.2:
            # very unequal sides: one axis 1e8..1e13 times longer than the others (seconds against nanometres)
            sides[int(rng.integers(N))] *= 10 ** rng.uniform(8, 13)
        hi = [l + float(s) for l, s in zip(lo, sides)]
    else:
        lo = fl(rng.uniform(-100, 100, N))
        hi = [l + float(s) for l, s in zip(lo, 10 ** rng.uniform(-1, 2, N))]
    return lo, hi, kind


def nearby_box(rng, lo, hi):
    """A genuinely different box next to (lo, hi): every bound moved by 1e-9..1e-2 of its side (a user zooming in or correcting a bound
    slightly).  Returns (lo, hi, "nearby")."""
    lo_a, hi_a = np.array(lo, dtype=float), np.array(hi, dtype=float)
    side = hi_a - lo_a
    n = len(lo_a)
    nlo = lo_a + side * 10 ** rng.uniform(-9, -2, n) * rng.choice([-1.0, 1.0], n)
    nhi = hi_a + side * 10 ** rng.uniform(-9, -2, n) * rng.choice([-1.0, 1.0], n)
    if not np.all(nlo < nhi) or (np.array_equal(nlo, lo_a) and np.array_equal(nhi, hi_a)):
        nhi = hi_a + side * 0.01
        nlo = lo_a.copy()
    return fl(nlo), fl(nhi), "nearby"


# --------------------------------------------------------------------------- objectives
FAMILIES = ["cones", "sines", "wells", "const", "stairs", "rcos", "linear", "outside", "needle",
            "noise", "discont", "scaled"]


def gen_objective(rng, N, fams=None):
    fams = fams or FAMILIES
    fam = fams[int(rng.integers(len(fams)))]
    s = {"fam": fam}
    if fam == "cones":
        k = int(rng.integers(1, 6))
        s["a"] = [fl(rng.uniform(0, 1, N)) for _ in range(k)]
        s["c"] = fl(rng.uniform(-1, 1, k) * float(10 ** rng.uniform(-2, 1.3)))
        s["K"] = fl(10 ** rng.uniform(-2, 1.3, k))
    elif fam == "sines":
        k = int(rng.integers(1, 5))
        s["w"] = [fl(rng.uniform(-12, 12, N)) for _ in range(k)]
        s["p"] = fl(rng.uniform(0, 6.28, k))
        s["A"] = fl(rng.uniform(0.05, 2.0, k) * float(10 ** rng.uniform(-1.5, 1)))
    elif fam == "wells":
        k = int(rng.integers(1, 5))
        s["a"] = [fl(rng.uniform(0, 1, N)) for _ in range(k)]
        s["c"] = fl(rng.uniform(-2, 2, k))
        s["q"] = fl(10 ** rng.uniform(-1, 1.5, k))
    elif fam == "const":
        s["v"] = float(rng.choice([0.0, 1.0, -3.5, 1e9, 1e-30]))
    elif fam == "stairs":
        s["k"] = int(rng.integers(2, 9))
        s["axis"] = int(rng.integers(N))
        s["sgn"] = float(rng.choice([-1.0, 1.0]))
    elif fam == "rcos":
        s["w"] = fl(rng.uniform(2, 20, N))
        s["q"] = int(rng.integers(1, 6))
    elif fam == "linear":
        s["w"] = fl(rng.uniform(-5, 5, N))
        s["b"] = float(rng.uniform(-10, 10))
    elif fam == "outside":
        s["a"] = [float(rng.choice([-0.5, 0.0, 1.0, 1.7, 0.5])) for _ in range(N)]
        s["q"] = float(10 ** rng.uniform(-1, 1))
    elif fam == "needle":
        s["a"] = fl(rng.uniform(0.05, 0.95, N))
        s["width"] = float(10 ** rng.uniform(-3, -1.3))
        s["depth"] = float(10 ** rng.uniform(0, 2))
        s["w"] = fl(rng.uniform(-1, 1, N))
    elif fam == "noise":
        s["salt"] = int(rng.integers(1 << 30))
        s["scale"] = float(10 ** rng.uniform(-2, 2))
    elif fam == "discont":
        s["cut"] = fl(rng.uniform(0.1, 0.9, N))
        s["jump"] = float(rng.uniform(-5, 5))
        s["w"] = fl(rng.uniform(-2, 2, N))
    elif fam == "scaled":
        base = gen_objective(rng, N, ["cones", "sines", "wells", "linear", "stairs"])
        s["base"] = base
        mode = str(rng.choice(["big", "small", "offset", "int", "npfloat"]))
        s["mode"] = mode
    return s


def build_objective(spec, N):
    """-> (G, info); info may contain exact 'L' (Lipschitz constant wrt Euclidean norm on the cube)
    and 'fmin' (exact global minimum over the cube)."""
    fam = spec["fam"]
    info = {}
    sq = math.sqrt
    if fam == "cones":
        a = np.array(spec["a"], dtype=float)
        c = np.array(spec["c"], dtype=float)
        K = np.array(spec["K"], dtype=float)

        def G(u):
            return float(np.min(c + K * np.sqrt(((u - a) ** 2).sum(axis=1))))
        info["L"] = float(K.max())
        info["fmin"] = float(c.min())
    elif fam == "sines":
        w = np.array(spec["w"], dtype=float)
        p = np.array(spec["p"], dtype=float)
        A = np.array(spec["A"], dtype=float)

        def G(u):
            return float((A * np.sin(w @ u + p)).sum())
        info["L"] = float((np.abs(A) * np.sqrt((w ** 2).sum(axis=1))).sum())
    elif fam == "wells":
        a = np.array(spec["a"], dtype=float)
        c = np.array(spec["c"], dtype=float)
        q = np.array(spec["q"], dtype=float)

        def G(u):
            return float(np.min(c + q * ((u - a) ** 2).sum(axis=1)))
        # |grad| of q|u-a|^2 is 2q|u-a| <= 2q * distance from a to the farthest cube corner
        info["L"] = float(max(2 * qi * sq(sum(max(ai, 1 - ai) ** 2 for ai in arow)) for qi, arow in zip(q, a)))
        info["fmin"] = float(c.min())
    elif fam == "const":
        v = spec["v"]

        def G(u):
            return v
        info["L"] = 0.0
        info["fmin"] = v
    elif fam == "stairs":
        k, ax, sg = spec["k"], spec["axis"], spec["sgn"]

        def G(u):
            return sg * math.floor(k * u[ax]) / k
    elif fam == "rcos":
        w = np.array(spec["w"], dtype=float)
        q = spec["q"]

        def G(u):
            return round(float(np.cos(w * u).sum()) * q) / q
    elif fam == "linear":
        w = np.array(spec["w"], dtype=float)
        b = spec["b"]

        def G(u):
            return float(w @ u + b)
        info["L"] = float(np.sqrt((w ** 2).sum()))
        info["fmin"] = float(b + np.minimum(w, 0).sum())
    elif fam == "outside":
        a = np.array(spec["a"], dtype=float)
        q = spec["q"]

        def G(u):
            return float(q * ((u - a) ** 2).sum())
        far = np.maximum(np.abs(0 - a), np.abs(1 - a))
        info["L"] = float(2 * q * np.sqrt((far ** 2).sum()))
        cl = np.clip(a, 0, 1)
        info["fmin"] = float(q * ((cl - a) ** 2).sum())
    elif fam == "needle":
        a = np.array(spec["a"], dtype=float)
        w = np.array(spec["w"], dtype=float)
        width, depth = spec["width"], spec["depth"]

        def G(u):
            d = sq(float(((u - a) ** 2).sum()))
            return float(w @ u) - depth * max(0.0, 1.0 - d / width)
        info["L"] = float(np.sqrt((w ** 2).sum()) + depth / width)
    elif fam == "noise":
        salt, scale = spec["salt"], spec["scale"]

        def G(u):
            h = hashlib.sha256(np.asarray(u, dtype=float).tobytes() + salt.to_bytes(8, "little")).digest()
            return (int.from_bytes(h[:6], "little") / float(1 << 48) - 0.5) * scale
    elif fam == "discont":
        cut = np.array(spec["cut"], dtype=float)
        w = np.array(spec["w"], dtype=float)
        jump = spec["jump"]

        def G(u):
            return float(w @ u) + (jump if bool(np.all(u > cut)) else 0.0)
    elif fam == "scaled":
        g0, i0 = build_objective(spec["base"], N)
        mode = spec["mode"]
        if mode == "big":
            def G(u):
                return g0(u) * 1e50
            sc, off = 1e50, 0.0
        elif mode == "small":
            def G(u):
                return g0(u) * 1e-50
            sc, off = 1e-50, 0.0
        elif mode == "offset":
            def G(u):
                return g0(u) + 1e9
            sc, off = 1.0, 1e9
        elif mode == "int":
            def G(u):
                return int(round(g0(u) * 8))
            sc, off = None, None
        else:
            def G(u):
                return np.float64(g0(u))
            sc, off = 1.0, 0.0
        if sc is not None:
            if "L" in i0:
                info["L"] = i0["L"] * sc
            if "fmin" in i0:
                info["fmin"] = i0["fmin"] * sc + off
    else:
        raise ValueError("unknown family " + fam)
    return G, info


# --------------------------------------------------------------------------- parameters
def eps_floor(N, m):
    """Smallest eps inside the floating-point domain of the method (DESIGN.md section 3)."""
    e = 2.0 ** (-40.0 / N)
    if N >= 2:
        e = max(e, 2.0 ** (-m))
    return e


def gen_params(rng, N, max_iters=600, refine=None, m=None, eps=None):
    if m is None:
        m = int(rng.integers(2, 13)) if N >= 2 else 10
        while N * m > 50:
            m -= 1
    r = float(rng.choice([1.05, 1.5, 2.0, 2.5, 3.0, 4.0, 6.0, 10.0, 25.0, 60.0])) if rng.random() < 0.5 \
        else float(1.0 + 10 ** rng.uniform(-1.5, 1.77))
    lo = eps_floor(N, m)
    if eps is None:
        u = rng.random()
        if u < 0.08:
            eps = float(rng.choice([1.0, 1.5, 3.0]))
        else:
            eps = float(10 ** rng.uniform(math.log10(lo * 1.0001), 0))
    iters = int(rng.choice([1, 2, 3, 4, 5, 8, 13, 30, 60, 120, 250, 500, 1000, 3000]))
    iters = min(iters, max_iters)
    if refine is None:
        refine = bool(rng.random() < 0.3)
    return {"r": r, "eps": eps, "iters": iters, "m": m, "refine": refine}


def gen_scenario(rng, dims=(1, 2, 3, 4, 5), fams=None, max_iters=600, refine=None, boxkind=None, m=None):
    N = int(dims[int(rng.integers(len(dims)))])
    lo, hi, kind = gen_box(rng, N, boxkind)
    obj = gen_objective(rng, N, fams)
    par = gen_params(rng, N, max_iters=max_iters, refine=refine, m=m)
    scn = {"N": N, "lower": lo, "upper": hi, "box": kind, "obj": obj}
    scn.update(par)
    # how the objective hands its value back: in the supplied holder, or in a fresh FunctionValue it returns
    scn["holder"] = "new" if rng.random() < 0.25 else "same"
    # how the SolverParameters object is filled in (record.make_params)
    u = rng.random()
    scn["params_how"] = "ctor" if u < 0.6 else ("assign" if u < 0.9 else "positional")
    u = rng.random()
    scn["m_type"] = "int" if u < 0.8 else ["np.int64", "np.int32", "np.intp", "np.uint8"][int(rng.integers(4))]
    if rng.random() < 0.12:
        lo_a, hi_a = np.array(lo, dtype=float), np.array(hi, dtype=float)
        scn["start_point"] = fl(lo_a + rng.random(N) * (hi_a - lo_a))
    u = rng.random()
    scn["num_types"] = None if u < 0.75 else ["np", "py", "np"][int(rng.integers(3))]     # (float32 parameters are not used: the method then computes in float32)
    return scn


def short(scn):
    """Compact description for evidence samples."""
    d = {k: scn[k] for k in ("N", "box", "r", "eps", "iters", "m", "refine", "holder", "params_how", "m_type", "num_types", "start_point") if k in scn}
    d["fam"] = scn["obj"]["fam"] if "obj" in scn else scn.get("bench")
    if "pattern" in scn:
        d["pattern"] = scn["pattern"]
    return d
