"""Access to the shipped benchmark families through their public constructors and Calculate."""
import numpy as np

from iOpt.trial import Point, FunctionValue, FunctionType


HIGH_DIMS = (16, 31, 32, 33, 64, 100)      # "any dimension": a few large ones beside 1..12


def all_keys():
    keys = []
    keys += [("hill", k) for k in range(1000)]
    keys += [("shekel", k) for k in range(1000)]
    keys += [("grishagin", k) for k in range(1, 101)]
    keys += [("gkls", n, k) for n in (2, 3, 4, 5) for k in range(1, 101)]
    keys += [("shekel4", k) for k in (1, 2, 3)]
    keys += [("rastrigin", d) for d in list(range(1, 13)) + list(HIGH_DIMS)]
    keys += [("xsquared", d) for d in list(range(1, 13)) + list(HIGH_DIMS)]
    keys += [("stronginc3",)]
    return keys


def construct(key):
    fam = key[0]
    if fam == "hill":
        from iOpt.problems.hill import Hill
        return Hill(key[1])
    if fam == "shekel":
        from iOpt.problems.shekel import Shekel
        return Shekel(key[1])
    if fam == "grishagin":
        from iOpt.problems.grishagin import Grishagin
        return Grishagin(key[1])
    if fam == "gkls":
        from iOpt.problems.GKLS import GKLS
        return GKLS(key[1], key[2])
    if fam == "shekel4":
        from iOpt.problems.shekel4 import Shekel4
        return Shekel4(key[1])
    if fam == "rastrigin":
        from iOpt.problems.rastrigin import Rastrigin
        return Rastrigin(key[1])
    if fam == "xsquared":
        from iOpt.problems.xsquared import XSquared
        return XSquared(key[1])
    if fam == "stronginc3":
        from iOpt.problems.stronginC3 import StronginC3
        return StronginC3()
    raise ValueError(key)


def holder(fid=None):
    """fid None -> objective; 0,1,2 -> constraint of StronginC3"""
    if fid is None:
        return FunctionValue()
    return FunctionValue(FunctionType.CONSTRAINT, fid)


def evaluate(problem, y, fid=None):
    fv = holder(fid)
    r = problem.Calculate(Point(np.array(y, dtype=np.double), []), fv)
    return r.value


def evaluate_fresh(key, y, fid=None):
    return evaluate(construct(tuple(key)), y, fid)


def bounds(problem):
    return (np.array(problem.lowerBoundOfFloatVariables, dtype=float), np.array(problem.upperBoundOfFloatVariables, dtype=float))


def declared(problem):
    ko = problem.knownOptimum[0]
    return np.array(ko.point.floatVariables, dtype=float), float(ko.functionValues[0].value)


def use_instance(p, variant):
    """A user works with the instance the way the shipped examples do, output swallowed.  variant % 4:
    0 - a few iterations, then the box of the solver's own evolvent (public attribute, public SetBounds) is narrowed, more iterations;
    1 - Solve with a ConsoleFullOutputListener attached (the final report reads the known optimum);
    2 - Solve with refineSolution=True on a small budget (the local phase is given the problem's bounds);
    3 - both.
    Returns a short description."""
    import contextlib
    import io
    from iOpt.solver import Solver
    from iOpt.solver_parametrs import SolverParameters
    from iOpt.method.listener import ConsoleFullOutputListener
    lo, hi = bounds(p)
    v = variant % 4
    with contextlib.redirect_stdout(io.StringIO()):
        if v == 0:
            s = Solver(p, SolverParameters(eps=0.05, r=3.0, itersLimit=12, evolventDensity=6))
            s.DoGlobalIteration(4)
            s.evolvent.SetBounds(np.array(lo + 0.1 * (hi - lo), dtype=np.double), np.array(hi - 0.2 * (hi - lo), dtype=np.double))
            s.DoGlobalIteration(3)
            return "iterations + SetBounds on Solver.evolvent"
        s = Solver(p, SolverParameters(eps=0.02, r=2.0, itersLimit=[0, 14, 8, 11][v] + (variant // 4) % 5, evolventDensity=6, refineSolution=v >= 2))
        if v in (1, 3):
            s.AddListener(ConsoleFullOutputListener(mode=["full", "result", "custom"][(variant // 4) % 3]))
        s.Solve()
    return ["", "Solve with a console listener", "Solve with refinement", "Solve with refinement and a console listener"][v]
