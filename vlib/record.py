"""Boundary recorders: the objective's call log, listener callbacks, snapshots of public state.

Everything here observes iOpt through its public API (Problem.Calculate, Listener callbacks,
Solver.GetResults(), iteration over Solver.searchData, SearchDataItem getters).  The single
harness-side wrapper is the phase marker around Process.DoLocalRefinement (installed on the
imported class in the worker process; the repository source is not touched).
"""
import contextlib
import io
import math

import numpy as np

from iOpt.problem import Problem
from iOpt.method.listener import Listener
from iOpt.solver import Solver
from iOpt.solver_parametrs import SolverParameters
from iOpt.trial import Trial, Point, FunctionValue

from vlib import scenario

PHASE = []          # stack of phase markers: 'l' local refinement, 'p' listener probe
LOCAL_CALLS = []    # one entry per DoLocalRefinement call: number of objective evaluations it made (filled by the phase wrapper)


class FpDomainExhausted(BaseException):
    """the method's own guard fired on a partition that has reached adjacent doubles (checked, not assumed): the case has left the
    floating-point domain of every property (DESIGN.md section 3); the worker records it as skipped"""


class BudgetAbort(BaseException):
    """Raised by the recording objective when the hard evaluation cap is exceeded."""


class InjectedFault(Exception):
    pass


_wrapped = False


def install_phase_wrappers():
    global _wrapped
    if _wrapped:
        return
    from iOpt.method.process import Process
    orig = Process.DoLocalRefinement

    def DoLocalRefinement(self, *a, **k):
        PHASE.append("l")
        LOCAL_CALLS.append(0)
        try:
            return orig(self, *a, **k)
        finally:
            PHASE.pop()
    DoLocalRefinement.__wrapped__ = orig
    Process.DoLocalRefinement = DoLocalRefinement
    _wrapped = True


def stack_phase():
    """'p' when the objective is being called from inside a shipped listener / painter (a probe, not a trial): some
    frame of the current call stack runs code of iOpt/output_system or iOpt/method/listener.py.  Lets listeners be
    attached directly (no forwarding proxy in between), exactly as a user would."""
    import sys
    f = sys._getframe(2)
    n = 0
    while f is not None and n < 60:
        fn = f.f_code.co_filename
        if "/iOpt/output_system/" in fn or fn.endswith("/iOpt/method/listener.py"):
            return "p"
        # a local refinement that does not enter through Process.DoLocalRefinement (a refactoring may route Solve's refinement through
        # a private helper): the call comes out of scipy.optimize, or out of a library function whose name says it refines
        if "/scipy/optimize/" in fn:
            return "l"
        if "/iOpt/" in fn and ("localrefine" in f.f_code.co_name.lower() or "refin" in f.f_code.co_name.lower()):
            return "l"
        f = f.f_back
        n += 1
    return "g"


class RecordingProblem(Problem):
    """f(y) = G((y-lower)/side) with a call log.  log entries: dict(i, y, v, ph, exc)."""

    def __init__(self, N, lower, upper, G, cap=None, fault=None, bounds_as="array", holder="same"):
        super().__init__()
        self.numberOfFloatVariables = N
        self.dimension = N
        self.numberOfObjectives = 1
        self.numberOfConstraints = 0
        self.floatVariableNames = np.array(["x%d" % i for i in range(N)], dtype=str)
        if bounds_as == "list":
            self.lowerBoundOfFloatVariables = list(lower)
            self.upperBoundOfFloatVariables = list(upper)
        else:
            self.lowerBoundOfFloatVariables = np.array(lower, dtype=np.double)
            self.upperBoundOfFloatVariables = np.array(upper, dtype=np.double)
        self._lo = np.array(lower, dtype=float)
        self._side = np.array(upper, dtype=float) - self._lo
        self.G = G
        self.holder = holder        # "same": fill and return the supplied holder; "new": return a fresh FunctionValue
        self.log = []
        self.ng = 0
        self.cap = cap
        self.fault = fault          # (k, exception factory): raise on the k-th call (1-based)
        self.budget_violation = False
        self.inside_hook = None     # callable(problem) run inside every call before evaluation
        self.knownOptimum = []

    def f(self, y):
        return self.G((np.asarray(y, dtype=float) - self._lo) / self._side)

    def Calculate(self, point, functionValue):
        y = np.array(point.floatVariables, dtype=float, copy=True)
        i = len(self.log) + 1
        ph = PHASE[-1] if PHASE else stack_phase()
        ent = {"i": i, "y": y, "v": None, "ph": ph, "exc": None}
        if getattr(self, "owner", None) is not None:
            ent["o"] = self.owner          # which solver is acting (one problem object shared by several solvers, C12)
        self.log.append(ent)
        if ph == "g":
            self.ng += 1
        elif ph == "l":
            if not LOCAL_CALLS:
                LOCAL_CALLS.append(0)
            LOCAL_CALLS[-1] += 1
        if self.cap is not None and ph == "g" and self.ng > self.cap:
            self.budget_violation = True
            ent["exc"] = "BudgetAbort"
            raise BudgetAbort("evaluation cap %d exceeded" % self.cap)
        if self.inside_hook is not None and ph == "g":
            self.inside_hook(self)
        if isinstance(self.fault, dict):
            # a fault SEQUENCE: one-shot failures at several evaluation indices {index: exception class}
            if i in self.fault:
                ent["exc"] = self.fault[i].__name__
                raise self.fault[i]("injected fault at evaluation %d" % i)
        elif self.fault is not None and (self.fault[0] == i or (len(self.fault) > 2 and self.fault[2] and i > self.fault[0])):
            # one-shot fault on the k-th call; with fault[2] true the objective keeps failing on every later call
            ent["exc"] = self.fault[1].__name__
            raise self.fault[1]("injected fault at evaluation %d" % i)
        v = self.f(y)
        ent["v"] = v
        if self.holder == "new":
            # functional style allowed by the signature `Calculate(point, functionValue) -> FunctionValue`:
            # the result travels in the returned object, the supplied holder is left untouched
            out = FunctionValue(functionValue.type, functionValue.functionID)
            out.value = v
            return out
        functionValue.value = v
        return functionValue


class ProxyProblem(Problem):
    """Recording proxy around a shipped Problem instance (same public fields, same values)."""

    def __init__(self, inner, cap=None):
        super().__init__()
        self.inner = inner
        for k in ("numberOfFloatVariables", "numberOfDisreteVariables", "numberOfObjectives", "numberOfConstraints",
                  "floatVariableNames", "discreteVariableNames", "lowerBoundOfFloatVariables",
                  "upperBoundOfFloatVariables", "discreteVariableValues", "knownOptimum"):
            setattr(self, k, getattr(inner, k))
        if hasattr(inner, "dimension"):
            self.dimension = inner.dimension
        self.log = []
        self.ng = 0
        self.cap = cap
        self.budget_violation = False
        self.inside_hook = None
        self.fault = None

    def f(self, y):
        fv = FunctionValue()
        return self.inner.Calculate(Point(np.array(y, dtype=float), []), fv).value

    def Calculate(self, point, functionValue):
        y = np.array(point.floatVariables, dtype=float, copy=True)
        i = len(self.log) + 1
        ph = PHASE[-1] if PHASE else stack_phase()
        ent = {"i": i, "y": y, "v": None, "ph": ph, "exc": None}
        self.log.append(ent)
        if ph == "g":
            self.ng += 1
        elif ph == "l":
            if not LOCAL_CALLS:
                LOCAL_CALLS.append(0)
            LOCAL_CALLS[-1] += 1
        if self.cap is not None and ph == "g" and self.ng > self.cap:
            self.budget_violation = True
            ent["exc"] = "BudgetAbort"
            raise BudgetAbort("evaluation cap %d exceeded" % self.cap)
        if self.inside_hook is not None and ph == "g":
            self.inside_hook(self)
        if self.fault is not None and self.fault[0] == i:
            ent["exc"] = self.fault[1].__name__
            raise self.fault[1]("injected fault at evaluation %d" % i)
        r = self.inner.Calculate(point, functionValue)
        ent["v"] = r.value
        return r


def snap_solution(sol):
    """Copy of what a Solution reports right now (public fields only)."""
    d = {"nG": sol.numberOfGlobalTrials, "nL": sol.numberOfLocalTrials, "acc": sol.solutionAccuracy,
         "y": None, "v": None, "z": None}
    try:
        bt = sol.bestTrials[0]
    except Exception:
        return d
    pt = getattr(bt, "point", None)
    fv = getattr(pt, "floatVariables", None) if pt is not None else None
    if fv is not None and len(fv) > 0:
        d["y"] = np.array(fv, dtype=float, copy=True)
        fvals = getattr(bt, "functionValues", None)
        if fvals is not None and len(fvals) > 0:
            d["v"] = fvals[0].value
        if hasattr(bt, "GetZ"):
            d["z"] = bt.GetZ()
    return d


class RecordingListener(Listener):
    """Logs every callback with copies of what it was given."""

    def __init__(self, on_event=None):
        self.events = []
        self.on_event = on_event

    def BeforeMethodStart(self, method):
        self.events.append({"cb": "before"})
        if self.on_event:
            self.on_event("before", None)

    def OnEndIteration(self, savedNewPoints, solution):
        items = []
        for it in savedNewPoints:
            items.append({"x": it.GetX(), "y": np.array(it.GetY().floatVariables, dtype=float, copy=True),
                          "z": it.GetZ(), "v": it.functionValues[0].value})
        self.events.append({"cb": "iter", "items": items, "sol": snap_solution(solution)})
        if self.on_event:
            self.on_event("iter", solution)

    def OnMethodStop(self, searchData, solution, status):
        self.events.append({"cb": "stop", "sol": snap_solution(solution), "status": status})
        if self.on_event:
            self.on_event("stop", solution)


class ForwardingProxy(Listener):
    """Transparent proxy that marks the duration of the wrapped listener's callbacks as a probe
    phase, so that objective calls a painter makes are not mistaken for trials."""

    def __init__(self, inner):
        self.inner = inner
        self.raised = []

    def BeforeMethodStart(self, method):
        PHASE.append("p")
        try:
            return self.inner.BeforeMethodStart(method)
        finally:
            PHASE.pop()

    def OnEndIteration(self, savedNewPoints, solution):
        PHASE.append("p")
        try:
            return self.inner.OnEndIteration(savedNewPoints, solution)
        finally:
            PHASE.pop()

    def OnMethodStop(self, searchData, solution, status):
        PHASE.append("p")
        try:
            return self.inner.OnMethodStop(searchData, solution, status)
        finally:
            PHASE.pop()


class Trace:
    pass


def make_problem(scn, cap=None, fault=None):
    N = scn["N"]
    G, info = scenario.build_objective(scn["obj"], N)
    p = RecordingProblem(N, scn["lower"], scn["upper"], G, cap=cap, fault=fault,
                         bounds_as="list" if scn.get("box") == "int" else "array", holder=scn.get("holder", "same"))
    return p, info


def make_params(scn):
    """How the user fills in the public SolverParameters object is part of the scenario: constructor keywords,
    positional constructor arguments, or attribute assignment on a default-constructed object."""
    how = scn.get("params_how", "ctor")
    mt = scn.get("m_type", "int")
    if mt != "int":
        # the density arrives as a numpy integer scalar (drawn with numpy, read from an array)
        scn = dict(scn, m={"np.int64": np.int64, "np.int32": np.int32, "np.intp": np.intp, "np.uint8": np.uint8}[mt](scn["m"]))
    nt = scn.get("num_types")
    if nt:
        # the same numbers handed over as numpy scalars / Python ints (r = 3 instead of 3.0, itersLimit as np.int64 ...)
        conv = {"np": (np.float64, np.float64, np.int64), "py": (float, float, int)}[nt]
        r_ = scn["r"]
        scn = dict(scn, eps=conv[0](scn["eps"]), r=(int(r_) if nt == "py" and float(r_).is_integer() else (conv[1](r_) if float(conv[1](r_)) == float(r_) else r_)),
                   iters=conv[2](scn["iters"]))
    sp = scn.get("start_point")
    if sp is not None:
        # SolverParameters.startPoint is documented ("initial approximation") and accepted; the method starts at x = 0.5 regardless
        from iOpt.trial import Point as _P
        p = make_params(dict(scn, start_point=None))
        p.startPoint = _P(np.array(sp, dtype=np.double), [])
        return p
    if how == "assign":
        p = SolverParameters()
        p.eps = scn["eps"]
        p.r = scn["r"]
        p.itersLimit = scn["iters"]
        p.evolventDensity = scn["m"]
        p.refineSolution = bool(scn.get("refine", False))
        return p
    if how == "positional":
        return SolverParameters(scn["eps"], scn["r"], scn["iters"], scn["m"], 0.001, bool(scn.get("refine", False)))
    return SolverParameters(eps=scn["eps"], r=scn["r"], itersLimit=scn["iters"], evolventDensity=scn["m"],
                            refineSolution=bool(scn.get("refine", False)))


def run_pattern(solver, pattern, after_step=None, caller_params=None):
    """pattern: list of ['iter', k] / ['solve'] steps.  Returns (list of returned Solutions, stdout).
    caller_params: the SolverParameters object the caller handed to the Solver (a 'set' step edits that object: the library
    keeps a reference to it, so the user's own handle and solver.parameters are the same live object)."""
    out = io.StringIO()
    sols = []
    with contextlib.redirect_stdout(out):
        for n, step in enumerate(pattern):
            if step[0] == "iter":
                try:
                    solver.DoGlobalIteration(step[1])
                except Exception as e:
                    if guard_fired(e, solver):
                        raise FpDomainExhausted(str(e))
                    raise
            elif step[0] == "solve":
                sols.append(solver.Solve())
            elif step[0] == "local":
                solver.DoLocalRefinement(step[1])
            elif step[0] == "evq":
                # the user puts a few pure queries to the solver's own evolvent (public attribute) between calls: C17 says they
                # have no effect, so neither the search nor its record may notice
                ev = solver.evolvent
                lo_ = np.array(solver.problem.lowerBoundOfFloatVariables, dtype=float)
                hi_ = np.array(solver.problem.upperBoundOfFloatVariables, dtype=float)
                g = np.random.default_rng(step[1])
                for q in range(3):
                    y_ = lo_ + g.random(len(lo_)) * (hi_ - lo_)
                    ev.GetInverseImage(y_)
                    ev.GetPreimages(list(y_))
                    ev.GetImage(float(g.random()))
            elif step[0] == "listen":
                # the user attaches one more (do-nothing) observer while the search is under way
                from iOpt.method.listener import Listener
                solver.AddListener(Listener())
            elif step[0] == "set":
                # the user edits the public SolverParameters object between calls (e.g. raises itersLimit and solves on)
                # (every other edit goes through the handle the user kept, the rest through solver.parameters)
                tgt = solver.parameters
                if caller_params is not None and (n + len(pattern)) % 2 == 0:
                    tgt = caller_params
                setattr(tgt, step[1], step[2])
            else:
                raise ValueError(step)
            if after_step is not None:
                after_step(n, step)
    return sols, out.getvalue()


def run_solver(scn, listener=True, cap="auto", fault=None, after_step=None, inside_hook=None, on_event=None,
               problem=None, extra_listeners=()):
    """Run one scenario through the real Solver and return a Trace of boundary observations."""
    install_phase_wrappers()
    del PHASE[:]
    del LOCAL_CALLS[:]
    t = Trace()
    if problem is None:
        hard = None
        if cap == "auto":
            steps = sum(s[1] for s in scn.get("pattern", [["solve"]]) if s[0] == "iter")
            lims = [s[2] for s in scn.get("pattern", []) if s[0] == "set" and s[1] == "itersLimit"]
            hard = max([scn["iters"]] + lims) + steps + 8
        elif cap is not None:
            hard = cap
        problem, info = make_problem(scn, cap=hard, fault=fault)
        t.info = info
    else:
        t.info = {}
    t.problem = problem
    params = make_params(scn)
    solver = Solver(problem, parameters=params)
    t.solver = solver
    problem.solver = solver
    problem.inside_hook = inside_hook
    t.listener = None
    if listener:
        t.listener = RecordingListener(on_event=on_event)
        solver.AddListener(t.listener)
    for l in extra_listeners:
        solver.AddListener(l)
    pattern = scn.get("pattern", [["solve"]])
    t.aborted = False
    t.fp_exhausted = False
    try:
        t.solutions, t.stdout = run_pattern(solver, pattern, after_step=after_step, caller_params=params)
    except FpDomainExhausted:
        t.fp_exhausted = True
        t.solutions, t.stdout = [], ""
    except BudgetAbort:
        t.aborted = True
        t.solutions, t.stdout = [], ""
    except Exception as e:
        if guard_fired(e, solver):
            t.fp_exhausted = True
            t.solutions, t.stdout = [], ""
        else:
            raise
    t.log = problem.log
    t.local_calls = list(LOCAL_CALLS)
    t.budget_violation = bool(getattr(problem, "budget_violation", False))
    t.final = snap_solution(solver.GetResults())
    t.swallowed = "Exception was thrown" in t.stdout
    if t.swallowed and guard_fired(t.stdout, solver):
        t.fp_exhausted = True
        t.swallowed = False
    return t


FP_GUARD = "x is outside of interval"


def guard_fired(evidence, solver):
    """The method gave up (an exception out of an iteration step, or 'Exception was thrown' printed by Solve) on a partition that is
    down to adjacent doubles.  Recognised by the STATE of the partition; the wording of the library's diagnostic is an internal (a
    reworded message must not turn the domain limit into an alarm), the known wording is merely accepted as well."""
    if not partition_degenerate(solver):
        return False
    if isinstance(evidence, BaseException):
        return isinstance(evidence, Exception) and not isinstance(evidence, BudgetAbort) and "injected fault" not in str(evidence)
    return ("Exception was thrown" in evidence) or (FP_GUARD in evidence)


def partition_degenerate(solver):
    """True when two neighbouring curve coordinates of the search information are (nearly) adjacent doubles: no
    representable interior point is left, the method's own guard 'x is outside of interval' is then legitimate and
    the scenario has left the floating-point domain of every property (DESIGN.md section 3).  A guard that fires on a
    non-degenerate partition is NOT excused."""
    try:
        xs = [float(it.GetX()) for it in solver.searchData]
        r = float(solver.parameters.r)
    except Exception:
        return False
    # the rule's point lies at least (1-1/r)/2 of the interval away from either end: once that margin is below
    # about two units in the last place the point is not representable strictly inside the interval
    k = 8.0 + (4.0 / (1.0 - 1.0 / r) if r > 1.0 else 0.0)
    for a, b in zip(xs, xs[1:]):
        if b - a <= k * float(np.spacing(b)):
            return True
    return False


def image_space_degenerate(solver, lower, upper):
    """N = 1 only: True when two neighbouring curve coordinates of the search information (the ends 0 and 1 included) are so
    close that their IMAGES in the box are not distinguishable (|dx|*side below 4 ulp of the larger bound in magnitude).
    Iteration batches ignore eps, so a run can be driven until a trial sits closer to its neighbour (or to the box boundary) than
    the spacing of doubles in the box's own coordinates; rounding of lower + x*side then decides on which side it lands.
    Such a run has left the floating-point domain of the box exactly as a partition of adjacent doubles has (DESIGN.md section 3)."""
    try:
        lo = float(np.asarray(lower, dtype=float)[0])
        hi = float(np.asarray(upper, dtype=float)[0])
        if len(np.asarray(lower).ravel()) != 1:
            return False
        xs = [float(it.GetX()) for it in solver.searchData]
    except Exception:
        return False
    lim = 4.0 * float(np.spacing(max(abs(lo), abs(hi))))
    side = hi - lo
    for a, b in zip(xs, xs[1:]):
        if (b - a) * side <= lim:
            return True
    return False


def global_log(t):
    return [e for e in t.log if e["ph"] == "g"]


def trial_sequence(t):
    """Authenticated global-phase trial sequence: (xs, zs, problems).  The x coordinates come
    from the items delivered to the listener, and are cross-checked against the call log
    (point bitwise equal, stored value equal to the logged value)."""
    xs, zs, problems = [], [], []
    glog = [e for e in t.log if e["ph"] == "g" and e["exc"] is None]
    k = 0
    for ev in t.listener.events:
        if ev["cb"] != "iter":
            continue
        for it in ev["items"]:
            if k >= len(glog):
                problems.append("listener delivered trial %d but only %d evaluations were logged" % (k + 1, len(glog)))
                k += 1
                continue
            e = glog[k]
            if it["y"].shape != e["y"].shape or not np.array_equal(it["y"], e["y"]):
                problems.append("trial %d: delivered point %s != evaluated point %s" % (k + 1, it["y"].tolist(), e["y"].tolist()))
            if not same_value(it["z"], e["v"]) or not same_value(it["v"], e["v"]):
                problems.append("trial %d: delivered value z=%r holder=%r != objective value %r" % (k + 1, it["z"], it["v"], e["v"]))
            xs.append(float(it["x"]))
            zs.append(float(e["v"]))
            k += 1
    if k != len(glog):
        problems.append("%d evaluations logged in the global phase but %d trials delivered to the listener" % (len(glog), k))
    return xs, zs, problems


def first_trial_problems(t, scn):
    """'The first trial is the evolvent image of x=0.5' for the configured (N, m, box): for N=1 that is the midpoint of the
    segment; for N>=2 it is the centre of a cell of the 2^m grid of the configured box (centres of any other density are at
    least a quarter of a cell away).  Returns a list of violation dicts."""
    glog = [e for e in t.log if e["ph"] == "g"]
    if not glog:
        return []
    lo = np.array(scn["lower"], dtype=float)
    side = np.array(scn["upper"], dtype=float) - lo
    y = np.asarray(glog[0]["y"], dtype=float)
    if y.shape != lo.shape:
        return [{"mech": "first-trial:shape", "point": y.tolist()}]
    m = int(scn["m"])
    ulp = np.spacing(np.maximum(np.abs(lo), np.abs(lo + side)))
    if scn["N"] == 1:
        if abs(y[0] - (lo[0] + 0.5 * side[0])) > 8 * ulp[0]:
            return [{"mech": "first-trial:not-the-image-of-0.5", "point": y.tolist(), "expected": [float(lo[0] + 0.5 * side[0])]}]
        return []
    tol = np.maximum(1e-6, 8.0 * ulp / side * (2.0 ** m))
    if np.any(tol > 0.1):
        return []
    q = (y - lo) / side * (2.0 ** m) - 0.5
    j = np.rint(q)
    if np.any(np.abs(q - j) > tol) or np.any(j < 0) or np.any(j >= 2 ** m):
        return [{"mech": "first-trial:not-a-cell-centre-of-the-configured-density", "m": m, "point": y.tolist(), "grid_coordinate": q.tolist()}]
    return []


def same_value(a, b):
    try:
        if a is None or b is None:
            return False
        fa, fb = float(a), float(b)
        return fa == fb or (math.isnan(fa) and math.isnan(fb))
    except Exception:
        return False


def inside_box(y, lower, upper, slack_ulp=0):
    lo = np.asarray(lower, dtype=float)
    hi = np.asarray(upper, dtype=float)
    y = np.asarray(y, dtype=float)
    if slack_ulp:
        s = slack_ulp * np.spacing(np.maximum(np.abs(lo), np.abs(hi)))
        return bool(np.all(y >= lo - s) and np.all(y <= hi + s))
    return bool(np.all(y >= lo) and np.all(y <= hi))
