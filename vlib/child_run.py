"""Child process for cross-process determinism (C11) and canonical values (C15):
reads a JSON job on stdin, prints a JSON answer."""
import hashlib
import json
import sys


def log_digest(log):
    h = hashlib.sha256()
    for e in log:
        h.update(e["y"].tobytes())
        h.update(repr(float(e["v"])).encode() if e["v"] is not None else b"None")
        h.update(e["ph"].encode())
    return h.hexdigest()


def main():
    job = json.load(sys.stdin)
    if job["what"] == "solver-log":
        from vlib import record
        t = record.run_solver(job["scn"], listener=False)
        print(json.dumps({"digest": log_digest(t.log), "n": len(t.log)}))
    elif job["what"] == "bench-values":
        from vlib import bench
        out = []
        for key, pt in job["queries"]:
            out.append(repr(float(bench.evaluate_fresh(key, pt))))
        print(json.dumps({"values": out}))


if __name__ == "__main__":
    main()
