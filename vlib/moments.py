"""Monitors evaluated at quiescent points of a run ("moments"): after every API step, inside every
listener callback, inside every objective call, on the returned Solution.

  optimum_monitor      - C04: reported best trial is an evaluated point, value faithful, none smaller
  searchinfo_monitor   - C06/C16: ordered, linked, complete and faithful search information
"""
import math

import numpy as np

from iOpt.evolvent.evolvent import Evolvent

from vlib import record


def ulps(a, b):
    a, b = float(a), float(b)
    if a == b:
        return 0.0
    if not (math.isfinite(a) and math.isfinite(b)):
        return float("inf")
    return abs(a - b) / float(np.spacing(max(abs(a), abs(b))))


class OptimumMonitor:
    """C04 oracle over the call log."""

    def __init__(self, problem):
        self.problem = problem
        self.viol = []
        self.moments = {}
        self.tie_moments = 0

    def completed(self, upto=None):
        g = [e for e in self.problem.log if e["ph"] == "g" and e["exc"] is None and e["v"] is not None]
        return g if upto is None else g[:upto]

    def check(self, snap, where, completed=None):
        done = self.completed() if completed is None else completed
        if not done:
            return
        self.moments[where] = self.moments.get(where, 0) + 1
        if snap["y"] is None:
            self._v(where, "no-best-reported", {"completed": len(done)})
            return
        vals = [float(e["v"]) for e in done]
        vmin = min(vals)
        match = [e for e in done if e["y"].shape == snap["y"].shape and np.array_equal(e["y"], snap["y"])]
        if not match:
            self._v(where, "best-point-not-evaluated", {"point": snap["y"].tolist(), "completed": len(done)})
            return
        if not any(record.same_value(snap["v"], e["v"]) for e in match):
            self._v(where, "best-value-not-objective-at-point", {"reported": _f(snap["v"]), "objective": [float(e["v"]) for e in match][:3],
                                                                   "point": snap["y"].tolist()})
        if snap["z"] is not None and not record.same_value(snap["z"], snap["v"]):
            self._v(where, "best-z-differs-from-value-holder", {"z": _f(snap["z"]), "holder": _f(snap["v"])})
        if snap["v"] is not None and float(snap["v"]) > vmin:
            self._v(where, "smaller-trial-exists", {"reported": _f(snap["v"]), "min_evaluated": vmin, "completed": len(done)})
        if vals.count(vmin) > 1:
            self.tie_moments += 1

    def check_refined(self, snap, where):
        """After local refinement: the reported point must be one the objective was evaluated at, the
        reported value the objective there, and not worse than the best global-phase trial."""
        allv = [e for e in self.problem.log if e["exc"] is None and e["v"] is not None and e["ph"] in ("g", "l")]
        done = self.completed()
        if not done:
            return
        self.moments[where] = self.moments.get(where, 0) + 1
        if snap["y"] is None:
            self._v(where, "no-best-reported", {"completed": len(done)})
            return
        match = [e for e in allv if e["y"].shape == snap["y"].shape and np.array_equal(e["y"], snap["y"])]
        if not match:
            self._v(where, "refined-point-not-evaluated", {"point": snap["y"].tolist()})
        elif not any(record.same_value(snap["v"], e["v"]) for e in match):
            self._v(where, "best-value-not-objective-at-point", {"reported": _f(snap["v"]), "objective": float(match[0]["v"])})
        pure = self.problem.f(snap["y"])
        if not record.same_value(pure, snap["v"]):
            self._v(where, "best-value-not-objective-at-point", {"reported": _f(snap["v"]), "recomputed": _f(pure)})
        vmin = min(float(e["v"]) for e in done)
        if snap["v"] is not None and float(snap["v"]) > vmin:
            self._v(where, "smaller-trial-exists", {"reported": _f(snap["v"]), "min_global": vmin})
        # "no evaluated trial has a smaller value": at the moments the statement lists (after an iteration, inside a callback,
        # the returned Solution) no refinement is in flight, and everything the objective was evaluated at - by the search or
        # by the refinement - counts.  (Nelder-Mead keeps its best vertex, so a finished refinement reports its minimum.)
        vall = min(float(e["v"]) for e in allv)
        if snap["v"] is not None and float(snap["v"]) > vall and not float(snap["v"]) > vmin:
            self._v(where, "smaller-evaluated-point-exists", {"reported": _f(snap["v"]), "min_over_both_phases": vall, "min_global": vmin,
                                                              "global_trials": len(done), "local_evaluations": len(allv) - len(done)})
        self.refined_moments = getattr(self, "refined_moments", 0) + 1

    def refined(self):
        return any(e["ph"] == "l" for e in self.problem.log)

    def check_any(self, snap, where):
        if self.refined():
            self.check_refined(snap, where + "+refined")
        else:
            self.check(snap, where)

    def _v(self, where, kind, d):
        if len(self.viol) < 6:
            self.viol.append(dict(d, mech="optimum:" + kind, moment=where))


def _f(v):
    try:
        return float(v)
    except Exception:
        return repr(v)


class SearchInfoMonitor:
    """C06 oracle: traversal order, links, count, completeness against the call log, lengths,
    stored point = fresh evolvent image of the coordinate, stored value = logged value."""

    def __init__(self, problem, solver, N, lower, upper, m):
        self.problem = problem
        self.solver = solver
        self.N = N
        self.fresh = Evolvent(np.array(lower, dtype=float), np.array(upper, dtype=float), N, m)
        self.cache = {}
        self.viol = []
        self.moments = {}
        self.items_checked = 0
        self.images_checked = 0

    def _v(self, where, kind, d):
        if len(self.viol) < 6:
            self.viol.append(dict(d, mech="searchinfo:" + kind, moment=where))

    def check(self, where, exclude_failed=True):
        sd = self.solver.searchData
        self.moments[where] = self.moments.get(where, 0) + 1
        done = [e for e in self.problem.log if e["ph"] == "g" and e["exc"] is None and e["v"] is not None]
        items = []
        try:
            guard = 0
            for it in sd:
                items.append(it)
                guard += 1
                if guard > len(self.problem.log) + 10:
                    self._v(where, "traversal-does-not-end", {"visited": guard})
                    return
        except Exception as e:
            if not done and not items:
                return      # no completed trial yet: the statement speaks of the record after >= 1 iterations (an empty SearchData cannot be iterated)
            self._v(where, "traversal-raised", {"exc": repr(e)})
            return
        if not items:
            if done:
                self._v(where, "empty-after-trials", {"trials": len(done)})
            return
        n = len(items)
        try:
            cnt = sd.GetCount()
        except Exception as e:
            cnt = repr(e)
        if cnt != len(done) + 2:
            self._v(where, "count", {"GetCount": cnt, "trials": len(done)})
        if n != len(done) + 2:
            self._v(where, "traversal-length", {"traversed": n, "trials": len(done)})
        xs = [it.GetX() for it in items]
        if xs[0] != 0 or xs[-1] != 1:
            self._v(where, "end-points", {"first": _f(xs[0]), "last": _f(xs[-1])})
        for i in range(1, n):
            if not xs[i - 1] < xs[i]:
                self._v(where, "order", {"i": i, "x_prev": _f(xs[i - 1]), "x": _f(xs[i])})
                break
        for i, it in enumerate(items):
            l, r = it.GetLeft(), it.GetRight()
            if (l is not (items[i - 1] if i > 0 else None)) or (r is not (items[i + 1] if i + 1 < n else None)):
                self._v(where, "links", {"i": i, "x": _f(xs[i])})
                break
        # completeness / fidelity of the interior items against the call log
        logkeys = {}
        for e in done:
            logkeys.setdefault(e["y"].tobytes(), []).append(e)
        seen = {}
        inv = 1.0 / self.N
        for i in range(1, n - 1):
            it = items[i]
            self.items_checked += 1
            try:
                y = np.asarray(it.GetY().floatVariables, dtype=float)
            except Exception as e:
                self._v(where, "item-point-unreadable", {"i": i, "exc": repr(e)})
                continue
            kb = y.tobytes()
            seen[kb] = seen.get(kb, 0) + 1
            ents = logkeys.get(kb)
            if not ents:
                self._v(where, "item-not-in-call-log", {"x": _f(xs[i]), "point": y.tolist()})
                continue
            z = it.GetZ()
            hv = it.functionValues[0].value if len(it.functionValues) else None
            if not any(record.same_value(z, e["v"]) for e in ents) or not any(record.same_value(hv, e["v"]) for e in ents):
                self._v(where, "stored-value", {"x": _f(xs[i]), "GetZ": _f(z), "holder": _f(hv), "objective": float(ents[0]["v"])})
            d = it.delta
            exp = math.pow(float(xs[i]) - float(xs[i - 1]), inv)
            if ulps(d, exp) > 4:
                self._v(where, "interval-length", {"x": _f(xs[i]), "x_left": _f(xs[i - 1]), "delta": _f(d), "expected": exp})
            c = self.cache.get(id(it))
            if c is None or c[0] != xs[i] or c[1] != kb:
                img = self.fresh.GetImage(float(xs[i]))
                self.images_checked += 1
                if not np.array_equal(img, y):
                    self._v(where, "stored-point-not-image", {"x": _f(xs[i]), "stored": y.tolist(), "image": img.tolist()})
                else:
                    self.cache[id(it)] = (xs[i], kb, it)
        # the two unevaluated end points carry stored points too: the images of 0 and of 1
        for i in (0, n - 1):
            try:
                ye = items[i].GetY().floatVariables
            except Exception:
                ye = None
            if ye is None:
                continue
            ye = np.asarray(ye, dtype=float)
            c = self.cache.get(("end", i))
            if c is None or c[0] != xs[i] or c[1] != ye.tobytes():
                img = self.fresh.GetImage(float(xs[i]))
                self.images_checked += 1
                if ye.shape != img.shape or not np.array_equal(img, ye):
                    self._v(where, "stored-point-not-image", {"x": _f(xs[i]), "stored": ye.tolist(), "image": img.tolist(), "what": "end point"})
                else:
                    self.cache[("end", i)] = (xs[i], ye.tobytes())
        # length of the last interval (right end point)
        if n >= 2:
            d = items[-1].delta
            exp = math.pow(float(xs[-1]) - float(xs[-2]), inv)
            if ulps(d, exp) > 4:
                self._v(where, "interval-length", {"x": 1.0, "x_left": _f(xs[-2]), "delta": _f(d), "expected": exp})
        for kb, ents in logkeys.items():
            if seen.get(kb, 0) != len(ents):
                self._v(where, "logged-trial-missing-or-duplicated", {"point": ents[0]["y"].tolist(), "logged": len(ents),
                                                                      "stored": seen.get(kb, 0)})
                break
        # failed evaluations must not be recorded
        for e in self.problem.log:
            if e["exc"] is not None and e["ph"] == "g":
                if e["y"].tobytes() in seen and e["y"].tobytes() not in logkeys:
                    self._v(where, "failed-point-recorded", {"point": e["y"].tolist()})
