"""Reach evidence: counts calls of functions defined under <repo>/iOpt while a sampled case
runs (sys.monitoring PY_START; code objects outside the repository are DISABLEd after their
first event so the overhead stays on repository code only).  Evidence only, never a verdict."""
import os
import sys

_TOOL = 3
_counts = {}
_prefix = None
_active = False


def _on_start(code, offset):
    fn = code.co_filename
    if fn.startswith(_prefix):
        key = os.path.basename(fn)[:-3] + "." + code.co_qualname
        _counts[key] = _counts.get(key, 0) + 1
        return None
    return sys.monitoring.DISABLE


def start(repo):
    global _prefix, _active
    if _active or not hasattr(sys, "monitoring"):
        return
    _prefix = os.path.join(os.path.abspath(repo), "iOpt") + os.sep
    try:
        sys.monitoring.use_tool_id(_TOOL, "iopt-reach")
    except ValueError:
        return
    sys.monitoring.register_callback(_TOOL, sys.monitoring.events.PY_START, _on_start)
    sys.monitoring.set_events(_TOOL, sys.monitoring.events.PY_START)
    _active = True


def stop():
    global _active
    if not _active:
        return
    sys.monitoring.set_events(_TOOL, 0)
    sys.monitoring.register_callback(_TOOL, sys.monitoring.events.PY_START, None)
    sys.monitoring.free_tool_id(_TOOL)
    sys.monitoring.restart_events()
    _active = False


def table():
    return dict(_counts)
