"""Online checkers ("invariant at a hook") for the search-data containers, C19.

While ENABLED, class-level wrappers on CharacteristicsQueue (Insert / GetBestItem / Clear) and on SearchData
(InsertFirstDataItem / InsertDataItem / FindDataItemByOneDimensionalPoint) keep a shadow of every queue and check, at the
moment the real operation returns:

  * GetBestItem returns a (item, key) pair that is in the shadow multiset and whose key is the maximum of the shadow
    (any of several equal keys is accepted; a bounded queue is shadowed as a multiset of keys that drops a minimal key on overflow);
  * after InsertDataItem the new item sits strictly between its neighbours, all four links agree and GetCount grew by one;
  * FindDataItemByOneDimensionalPoint(x) returns the first item to the right of x (checked on its left neighbour);
  * every 64 insertions (and on demand) the whole list is traversed: strictly increasing coordinates, consistent links, GetCount.

The wrappers are pass-through when not ENABLED.  Unlike the direct histories of checks/c19.py the operations here are issued by
the real Solver (hinted insertions, recalculation refills, queue pops of the decision rule) in real optimisation runs.
"""
ENABLED = False
VIOL = []
STATS = {}
_installed = False


def _v(d):
    if len(VIOL) < 8:
        VIOL.append(d)


def _count(k, n=1):
    STATS[k] = STATS.get(k, 0) + n


def reset():
    del VIOL[:]
    STATS.clear()


def full_traversal(sd, where):
    xs, items = [], []
    guard = 0
    try:
        for it in sd:
            items.append(it)
            xs.append(it.GetX())
            guard += 1
            if guard > sd.GetCount() + 5:
                _v({"mech": "containers:hook:traversal-does-not-end", "where": where})
                return
    except Exception:
        if sd.GetCount() == 0:
            return
        _v({"mech": "containers:hook:traversal-raised", "where": where})
        return
    _count("hook_full_traversals")
    _count("hook_items_traversed", len(items))
    if len(items) != sd.GetCount():
        _v({"mech": "containers:hook:count", "where": where, "GetCount": sd.GetCount(), "traversed": len(items)})
    for i in range(1, len(items)):
        if not xs[i - 1] < xs[i]:
            _v({"mech": "containers:hook:order", "where": where, "i": i, "x_prev": float(xs[i - 1]), "x": float(xs[i])})
            break
    for i, it in enumerate(items):
        l, r = it.GetLeft(), it.GetRight()
        if (l is not (items[i - 1] if i else None)) or (r is not (items[i + 1] if i + 1 < len(items) else None)):
            _v({"mech": "containers:hook:links", "where": where, "i": i, "x": float(xs[i])})
            break


def install():
    global _installed
    if _installed:
        return
    from iOpt.method.search_data import CharacteristicsQueue, SearchData
    q_init, q_ins, q_best, q_clear = CharacteristicsQueue.__init__, CharacteristicsQueue.Insert, CharacteristicsQueue.GetBestItem, CharacteristicsQueue.Clear

    def __init__(self, maxlen, *a, **k):
        q_init(self, maxlen, *a, **k)
        self._v_shadow = []
        self._v_bounded = maxlen is not None
        self._v_maxlen = maxlen

    def Insert(self, key, dataItem):
        r = q_ins(self, key, dataItem)
        if ENABLED and hasattr(self, "_v_shadow"):
            _count("hook_queue_inserts")
            self._v_shadow.append((key, dataItem))
            if self._v_bounded and len(self._v_shadow) > self._v_maxlen:
                # an entry with a minimal key is evicted (which one, among equal keys, is the queue's choice)
                mn = min(k for k, _ in self._v_shadow)
                cands = [i for i, (k, _) in enumerate(self._v_shadow) if k == mn]
                if len(cands) > 1:
                    self._v_ambiguous = True
                self._v_shadow.pop(cands[0])
        return r

    def GetBestItem(self):
        res = q_best(self)
        if ENABLED and hasattr(self, "_v_shadow") and not getattr(self, "_v_unobservable", False):
            item, key = res
            sh = self._v_shadow
            try:
                in_sync = self.GetLen() + 1 == len(sh)
            except Exception:
                in_sync = True
            if not in_sync:
                # entries reached or left the real queue without passing through Insert / GetBestItem / Clear (an implementation may
                # fill it in bulk): the shadow does not describe this queue, nothing is asserted about it any more
                self._v_unobservable = True
                _count("hook_queues_not_observable_through_the_public_methods")
                return res
            _count("hook_queue_pops")
            if not sh:
                _v({"mech": "containers:hook:pop-from-queue-the-shadow-holds-empty", "key": float(key)})
            else:
                mx = max(k for k, _ in sh)
                if not (key == mx):
                    _v({"mech": "containers:hook:best-not-maximal", "returned_key": float(key), "max_queued_key": float(mx), "queued": len(sh),
                        "bounded": self._v_bounded})
                if sum(1 for k, _ in sh if k == mx) > 1:
                    _count("hook_pops_with_ties")
                idx = next((i for i, (k, it) in enumerate(sh) if it is item and k == key), None)
                if idx is None:
                    if not getattr(self, "_v_ambiguous", False):
                        _v({"mech": "containers:hook:popped-pair-was-never-queued", "returned_key": float(key), "returned_x": float(item.GetX())})
                    idx = next((i for i, (k, it) in enumerate(sh) if k == key), None)
                if idx is not None:
                    sh.pop(idx)
        return res

    def Clear(self):
        r = q_clear(self)
        if hasattr(self, "_v_shadow"):
            del self._v_shadow[:]
            self._v_ambiguous = False
            self._v_unobservable = False
            if ENABLED:
                _count("hook_queue_clears")
        return r

    CharacteristicsQueue.__init__, CharacteristicsQueue.Insert, CharacteristicsQueue.GetBestItem, CharacteristicsQueue.Clear = __init__, Insert, GetBestItem, Clear

    s_first, s_ins, s_find = SearchData.InsertFirstDataItem, SearchData.InsertDataItem, SearchData.FindDataItemByOneDimensionalPoint

    def InsertFirstDataItem(self, leftDataItem, rightDataItem):
        r = s_first(self, leftDataItem, rightDataItem)
        if ENABLED:
            _count("hook_first_inserts")
            full_traversal(self, "after InsertFirstDataItem")
        return r

    def InsertDataItem(self, newDataItem, rightDataItem=None):
        if not ENABLED:
            return s_ins(self, newDataItem, rightDataItem)
        before = self.GetCount()
        r = s_ins(self, newDataItem, rightDataItem)
        _count("hook_inserts")
        _count("hook_inserts_with_hint" if rightDataItem is not None else "hook_inserts_without_hint")
        l, rr = newDataItem.GetLeft(), newDataItem.GetRight()
        ok = (l is not None and rr is not None and l.GetRight() is newDataItem and rr.GetLeft() is newDataItem
              and l.GetX() < newDataItem.GetX() < rr.GetX())
        if not ok:
            _v({"mech": "containers:hook:insert-postcondition", "x": float(newDataItem.GetX()),
                "left": None if l is None else float(l.GetX()), "right": None if rr is None else float(rr.GetX())})
        if self.GetCount() != before + 1:
            _v({"mech": "containers:hook:count-after-insert", "before": before, "after": self.GetCount()})
        if STATS.get("hook_inserts", 0) % 64 == 0:
            full_traversal(self, "every 64th insertion")
        return r

    def FindDataItemByOneDimensionalPoint(self, x):
        res = s_find(self, x)
        if ENABLED:
            _count("hook_lookups")
            if res is not None:
                l = res.GetLeft()
                if not (res.GetX() > x) or (l is not None and l.GetX() > x):
                    _v({"mech": "containers:hook:covering-interval-lookup", "x": float(x), "returned": float(res.GetX()),
                        "left_of_returned": None if l is None else float(l.GetX())})
        return res

    SearchData.InsertFirstDataItem, SearchData.InsertDataItem, SearchData.FindDataItemByOneDimensionalPoint = InsertFirstDataItem, InsertDataItem, FindDataItemByOneDimensionalPoint
    _installed = True


class enabled:
    def __enter__(self):
        global ENABLED
        install()
        reset()
        ENABLED = True
        return self

    def __exit__(self, *a):
        global ENABLED
        ENABLED = False
        return False
