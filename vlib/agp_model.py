"""Independent reference model of the AGP decision rule, written from the statement of C02/C03
(not from the repository's code): partition of [0,1], M = running maximum of |dz|/D over every
neighbouring pair ever formed (floored at 1), z* = running minimum, the three characteristic
formulas, arg-max selection with ties accepted, the closed formula of the new point.
"""
import bisect
import math

import numpy as np


def holder(dx, N):
    return math.pow(dx, 1.0 / N)


def audit(xs, zs, N, r, rtol=1e-9, max_report=5, fp_tol=False):
    """Audit a trial sequence (xs in evaluation order, zs the objective values).

    Returns dict with
      violations : list of dicts (kind, k, ...)
      events     : counters of what was observed (ties, M growth, z* improvements, branches ...)
      lengths    : Hoelder length of the interval subdivided by trial k (index k-1; None for k=1)
      M_sel      : M in force when the interval for trial k was selected
      M_final, zstar_final
    """
    ev = {"audited": 0, "ties": 0, "M_grew": 0, "zstar_improved": 0, "boundary_chosen": 0,
          "branch_pos": 0, "branch_neg": 0, "branch_zero": 0, "max_tie_size": 0}
    viol = []
    lengths = [None]
    M_sel = [None]
    worst_gap = 0.0
    if not xs:
        return {"violations": [], "events": ev, "lengths": [], "M_sel": [], "M_final": 1.0, "zstar_final": None,
                "worst_gap": 0.0}
    if xs[0] != 0.5:
        viol.append({"kind": "first-trial-not-0.5", "k": 1, "x": xs[0]})
    X = np.array([0.0, xs[0], 1.0])
    Z = np.array([np.nan, zs[0], np.nan])
    M = 1.0
    zstar = zs[0]
    inv = 1.0 / N
    for k in range(1, len(xs)):
        x, z = xs[k], zs[k]
        j = int(np.searchsorted(X, x, side="left"))      # X[j-1] < x <= X[j]
        if j >= len(X) or j == 0 or X[j] == x:
            kind = "duplicate-coordinate" if (j < len(X) and X[j] == x) else "outside-unit-interval"
            if len(viol) < max_report:
                viol.append({"kind": kind, "k": k + 1, "x": x})
            # cannot continue the audit meaningfully
            lengths.append(None)
            M_sel.append(M)
            if j < len(X) and X[j] == x:
                continue
            break
        dX = X[1:] - X[:-1]
        D = dX ** inv
        zl = Z[:-1]
        zr = Z[1:]
        R = np.empty_like(D)
        rm = r * M
        # interior intervals
        dz = zr[1:-1] - zl[1:-1]
        R[1:-1] = D[1:-1] + dz * dz / (rm * rm * D[1:-1]) - 2.0 * (zr[1:-1] + zl[1:-1] - 2.0 * zstar) / rm
        R[0] = 2.0 * D[0] - 4.0 * (zr[0] - zstar) / rm
        R[-1] = 2.0 * D[-1] - 4.0 * (zl[-1] - zstar) / rm
        t = j - 1                                          # chosen interval [X[t], X[t+1]]
        Rmax = float(R.max())
        tol = rtol * max(1.0, abs(Rmax))
        if fp_tol:
            # deep runs: the characteristics themselves are of the order of the interval lengths (1e-13 and below), so the comparison is
            # made relative to the magnitude of the terms the characteristic is computed from (their rounding is what limits it)
            ib = int(R.argmax())
            sc = 0.0
            for q in (t, ib):
                a_l = 0.0 if np.isnan(Z[q]) else abs(float(Z[q]))
                a_r = 0.0 if np.isnan(Z[q + 1]) else abs(float(Z[q + 1]))
                dzq = 0.0 if (np.isnan(Z[q]) or np.isnan(Z[q + 1])) else float(Z[q + 1] - Z[q])
                sc = max(sc, 2.0 * float(D[q]) + dzq * dzq / (rm * rm * float(D[q])) + 4.0 * (a_l + a_r + 2.0 * abs(zstar)) / rm)
            tol = min(tol, 1e-11 * sc)
        gap = Rmax - float(R[t])
        if gap > worst_gap:
            worst_gap = gap
        if gap > tol:
            if len(viol) < max_report:
                viol.append({"kind": "non-maximal-interval", "k": k + 1, "x": x, "R_chosen": float(R[t]), "R_max": Rmax,
                             "chosen": [float(X[t]), float(X[t + 1])],
                             "best": [float(X[int(R.argmax())]), float(X[int(R.argmax()) + 1])], "M": M, "zstar": zstar})
        nt = int((R >= Rmax - tol).sum())
        if nt > 1:
            ev["ties"] += 1
            ev["max_tie_size"] = max(ev["max_tie_size"], nt)
        xl, xr = float(X[t]), float(X[t + 1])
        if t == 0 or t == len(D) - 1:
            ev["boundary_chosen"] += 1
            xe = 0.5 * (xl + xr)
        else:
            d = float(Z[t + 1] - Z[t])
            if d > 0:
                ev["branch_pos"] += 1
                sg = 1.0
            elif d < 0:
                ev["branch_neg"] += 1
                sg = -1.0
            else:
                ev["branch_zero"] += 1
                sg = 0.0
            xe = 0.5 * (xl + xr) - sg * math.pow(abs(d) / M, N) / (2.0 * r)
        if abs(x - xe) > rtol * (xr - xl) + 4 * np.spacing(xr):
            if len(viol) < max_report:
                viol.append({"kind": "wrong-new-point", "k": k + 1, "x": x, "expected": xe, "interval": [xl, xr], "M": M})
        if not (xl < x < xr):
            if len(viol) < max_report:
                viol.append({"kind": "not-strictly-inside", "k": k + 1, "x": x, "interval": [xl, xr]})
        lengths.append(holder(xr - xl, N))      # math.pow, as a scalar computation would do
        M_sel.append(M)
        ev["audited"] += 1
        # insert and update M, z*
        X = np.insert(X, j, x)
        Z = np.insert(Z, j, z)
        grew = False
        if j - 1 >= 1:                                     # left neighbour is an evaluated trial
            m1 = abs(z - Z[j - 1]) / holder(x - X[j - 1], N)
            if m1 > M:
                M = m1
                grew = True
        if j + 1 <= len(X) - 2:
            m2 = abs(Z[j + 1] - z) / holder(X[j + 1] - x, N)
            if m2 > M:
                M = m2
                grew = True
        if grew:
            ev["M_grew"] += 1
        if z < zstar:
            zstar = z
            ev["zstar_improved"] += 1
    return {"violations": viol, "events": ev, "lengths": lengths, "M_sel": M_sel, "M_final": M, "zstar_final": zstar,
            "worst_gap": worst_gap}


def expected_stop(lengths, eps, iters_limit):
    """Number of trials Solve must make: the first k whose subdivided interval had Hoelder length
    < eps (the trial is still carried out), capped by the budget."""
    for k, L in enumerate(lengths, start=1):
        if k >= iters_limit:
            return iters_limit
        if L is not None and L < eps:
            return k
    return None   # stop not reached within the recorded sequence
