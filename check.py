#!/venv/bin/python
"""Entry point:  /venv/bin/python check.py C07 --tier quick [--replay <path>]
VERIF_SEED and VERIF_TIER are honoured (command-line --tier wins)."""
import argparse
import os
import sys

sys.path.insert(0, os.path.dirname(os.path.abspath(__file__)))


def main():
    ap = argparse.ArgumentParser()
    ap.add_argument("pid")
    ap.add_argument("--tier", default=None, choices=["quick", "thorough"])
    ap.add_argument("--replay", default=None)
    ap.add_argument("--jobs", type=int, default=None)
    a = ap.parse_args()
    tier = a.tier or os.environ.get("VERIF_TIER") or "quick"
    if tier not in ("quick", "thorough"):
        tier = "quick"
    try:
        seed = int(os.environ.get("VERIF_SEED", "0"))
    except ValueError:
        seed = 0
    import warnings
    warnings.filterwarnings("ignore", category=SyntaxWarning)
    try:
        from vlib import runner
        rc = runner.main(a.pid, tier, seed, replay=a.replay, jobs=a.jobs)
    except SystemExit:
        raise
    except BaseException as e:   # a crash of the harness itself is never a verdict about the repository
        import traceback
        traceback.print_exc()
        print("HARNESS-ERROR property=%s %s: %s" % (a.pid, type(e).__name__, e))
        rc = 3
    sys.exit(rc)


if __name__ == "__main__":
    main()
